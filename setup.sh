#!/bin/sh
# Offline set-up: nothing is fetched; only checks that the pre-installed tools are present and creates build dirs.
set -e
cd "$(dirname "$0")"
mkdir -p build evidence
command -v verus >/dev/null || { echo "verus not on PATH"; exit 1; }
command -v cargo >/dev/null || { echo "cargo not on PATH"; exit 1; }
cargo kani --version >/dev/null 2>&1 || echo "warning: cargo kani not available (Kani-backed checks will be undecided)"
echo "setup ok"
