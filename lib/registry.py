"""Which engines decide which property."""

TB_VERUS = ['Verus 0.2026.09.13 + Z3 (vstd axioms incl. wrapping_* / Box<[u8]> indexing specs)',
            'extraction rules R1-R6 of DESIGN.md section 3.2 (lib/vx.py)',
            'spec functions in /verif/specs written from the property statement']

UNITS = {
    'timer': {},
}

PROPS = {
    'C13': {
        'level': 'proof',
        'verus': ['timer'],
        'technique': 'Verus function contracts + loop invariant against a per-clock recursive spec; batching lemma by induction',
        'level_text': 'Every function of devices/timer.rs is extracted from /repo on each run and proved (all inputs, all batch sizes, no bound) against the per-clock reference run(s,n): run_cycles == run, TAC write edge rule, reload/IRQ on overflow, DIV = elapsed mod 2^16 bits 8-15, batching lemma run(a+b) == run(a);run(b).',
        'level_note': 'Trusts Verus/Z3, the extraction rules and the timer spec functions; assumes one batch <= 0xffff0000 clocks.',
        'design_ref': 'DESIGN.md 5.13',
        'trusted_base': TB_VERUS,
        'assumptions': ['one catch-up batch is at most 0xffff0000 clocks (ClockCycles::as_u32 truncates above 2^32); '
                        'callers deliver at most 4 * 0x30000 clocks per batch',
                        'machine integers are modelled exactly by Verus (overflow checks on)'],
    },
}

HOOK_COMMITS = []
NOT_APPLICABLE = {}
