"""Which engines decide which property."""

TB_VERUS = ['Verus 0.2026.09.13 + Z3 (vstd axioms incl. wrapping_* / Box<[u8]> indexing specs)',
            'extraction rules R1-R6 of DESIGN.md section 3.2 (lib/vx.py)',
            'spec functions in /verif/specs written from the property statement']

UNITS = {
    'timer': {},
    'joypad': {},
    'cart': {},
    'bus': {},
    'core_step': {},
    'video_timing': {},
    'codecache': {},
    'disasm': {},
    'loader': {},
    'video_leaf': {},
}

PROPS = {
    'C13': {
        'level': 'proof',
        'verus': ['timer'],
        'technique': 'Verus function contracts + loop invariant against a per-clock recursive spec; batching lemma by induction',
        'level_text': 'Every function of devices/timer.rs is extracted from /repo on each run and proved (all inputs, all batch sizes, no bound) against the per-clock reference run(s,n): run_cycles == run, TAC write edge rule, reload/IRQ on overflow, DIV = elapsed mod 2^16 bits 8-15, batching lemma run(a+b) == run(a);run(b).',
        'level_note': 'Trusts Verus/Z3, the extraction rules and the timer spec functions; assumes one batch <= 0xffff0000 clocks.',
        'design_ref': 'DESIGN.md 5.13',
        'trusted_base': TB_VERUS,
        'assumptions': ['one catch-up batch is at most 0xffff0000 clocks (ClockCycles::as_u32 truncates above 2^32); '
                        'callers deliver at most 4 * 0x30000 clocks per batch',
                        'machine integers are modelled exactly by Verus (overflow checks on)'],
    },
}

PROPS['C17'] = {
    'level': 'proof',
    'verus': ['joypad'], 'kani': ['misc:joypad'],
    'technique': 'Verus function contracts over the complete transition relation (bit-vector lemmas for the line/edge arithmetic) + a complete Kani twin (joypad_twin: every reachable state and every operation on the real Joypad, loop-free) that also supplies counterexamples',
    'level_text': 'Every function of devices/joypad.rs is extracted from /repo on each run and proved for all 256 button states x 4 selections x all actions: get_value & 0x3f == p1(buttons, selection); press/release/set_value update exactly the named bits; the request is latched iff prev_lines & !new_lines & 0x0f != 0; get_interrupt reports it once and clears it.',
    'level_note': 'Trusts Verus/Z3, the extraction rules, the joypad spec functions and an assume_specification for std::mem::replace.',
    'design_ref': 'DESIGN.md 5.17',
    'trusted_base': TB_VERUS + ['assume_specification std::mem::replace (returns old value, stores new one)'],
    'assumptions': ['P1 bits 6-7 are outside the property (excluded by its quantifier)'],
}

_BUS_TB = TB_VERUS + ['assume_specification Vec::into_boxed_slice (same elements)', 'assume_specification std::mem::replace',
                      'VideoState::run_clock_cycles, LCD::new, SerialComms::set_control are external_body in this unit (contracts assumed here; see C14 / C18)']
PROPS['C10'] = {
    'level': 'proof', 'verus': ['bus', 'codecache'], 'trusted_base': _BUS_TB, 'design_ref': 'DESIGN.md 5.10',
    'technique': 'Verus contracts: memory_read_byte == read_spec (documented map), memory_write_byte whole-map frame + I/O read-back table, fetch-view contract',
    'level_text': 'memory_read_byte, memory_write_byte, memory_read/write_word, get_executable_memory_slice, IO::get_byte/set_byte and every register getter/setter they reach are extracted from /repo and proved for every address and value under the representation invariant mem_wf: reads equal the documented map read_spec; a write changes exactly one cell of VRAM / cartridge RAM / WRAM / OAM / HRAM (whole-map frame: every other address reads as before), ROM never changes, unmapped regions read a constant and ignore writes, listed I/O registers read back their writable bits, the fetch slice equals data reads in ROM/WRAM/HRAM.',
    'level_note': 'Trusts Verus/Z3, the extraction rules, read_spec (written from the memory map in the property), assumed contracts of the LCD timing core / stdout. Cartridge-RAM addresses without a RAM cell are specified as unmapped (constant, writes ignored). IE full-byte storage is a recorded finding. Instruction fetch in the translating build = the bytes translate_code_block reads plus the validity of cached translations: the jit variant of Core::run_code_block and translate_code_block (unit codecache: a block\'s bytes come from one region as currently mapped, and it is filed under the current tag) are counted here too; that the emitted code then behaves like those bytes is C01.',
    'assumptions': ['mem_wf is established by MemoryAreas::with_rom (proved) and with_rom_file (unit loader, C19)',
                    'cartridge RAM enable (0x0000-0x1FFF) is not part of the property and not modelled'],
}
PROPS['C11'] = {
    'level': 'proof', 'verus': ['bus', 'cart', 'loader', 'video_leaf'], 'kani': ['misc:header'], 'trusted_base': _BUS_TB, 'design_ref': 'DESIGN.md 5.11',
    'technique': 'Verus built-in obligations (index in bounds, arithmetic overflow, unreachable panics) on the bus functions under the invariant mem_wf preserved by every write',
    'level_text': 'Every index, arithmetic operation and panic site in the four bus helpers, the bank helpers, IO::get_byte/set_byte and the MBC write handlers is proved safe for every address, value and reachable controller state (invariant CartState::inv + mem_wf preserved by every bus write, for any ROM of 1..512 banks and any cartridge RAM size up to 128 KiB).',
    'level_note': 'Process-level abort semantics are not modelled: a reachable panic is already the violation. The device catch-up that every bus write can trigger includes the LCD renderer: unit video_leaf proves on the unsliced VideoState::run_clock_cycles (obligation run_clock_cycles_safe) that, whatever the guest has written to the LCD registers mid-frame, every index into the tile maps, tile data, object line cache and frame buffer stays in bounds and the invariant pipe_safe (part of IO::wf, preserved by every register setter) is re-established.',
    'assumptions': ['overflow checks on (Verus checks every + - * on machine integers)'],
}
PROPS['C12'] = {
    'level': 'proof', 'verus': ['cart', 'bus'], 'trusted_base': _BUS_TB, 'design_ref': 'DESIGN.md 5.12',
    'technique': 'Verus trait-level contracts: each CartState impl against the MBC register-protocol state machine; induction lemma over write sequences; bank reduction in the bus unit',
    'level_text': 'write_rom / get_rom_bank / get_ram_bank of NullCartState, MBC1CartState and MBC3CartState are proved against mbc_step / mbc_rom_bank / mbc_ram_bank (5/7-bit masking, 0 -> 1 translation, MBC1 upper bits and mode); lemma_mbc_run_ok lifts this to any write sequence by induction; MemoryAreas::get_rom_bank / get_cart_ram_index and the read contract prove the visible banks are those numbers reduced modulo the cartridge size, 0x0000-0x3FFF is always bank 0 and ROM-only carts ignore writes.',
    'level_note': 'The protocol spec (mbc_* functions) follows the classic MBC1 description in which mode 1 exposes only the 5-bit ROM bank (as the property and the code do); RAM enable and the MBC3 RTC are not modelled.',
    'assumptions': [],
}
PROPS['C16'] = {
    'level': 'proof', 'verus': ['bus', 'core_step', 'codecache'], 'trusted_base': _BUS_TB, 'design_ref': 'DESIGN.md 5.16',
    'technique': 'Verus loop invariant on the DMA catch-up loop of MemoryAreas::run_clock_cycles + write contract for 0xFF46; batching lemma on the progress counter',
    'level_text': 'The 0xFF46 arm of memory_write_byte arms Some{source = XX00, offset 0}; the catch-up loop is proved (all pages, all batch sizes, no bound) to copy bytes [offset, min(160, offset + n/4)) in ascending order, each read through the normal bus at that time, into OAM only; everything else is unchanged; completion after 160 machine cycles and restart follow from the contract; lemma_dma_batching proves split-independence of the progress.',
    'level_note': 'P1 bits 6-7 and STAT bit 7 of a source byte taken from page 0xFF are outside the bus specification. "One byte per machine cycle" is in CPU time: that every step (instruction, block, halted or stopped step) hands its machine cycles to MemoryAreas::run_clock_cycles, which contains the DMA engine, is the contract of Core::update / run_interp / run_code_block (units core_step, codecache; shared with C09) and is counted here too.',
    'assumptions': [],
}

_KANI_TB = ['Kani 0.68 + CBMC 6.11 (SAT back end)', 'kani/src/sm83.rs: SM83 reference semantics (spec)', 'recording-bus stub for memory_read_byte/memory_write_byte',
            'the repository files are compiled unmodified via #[path] includes (no extraction)']
PROPS['C05'] = {
    'level': 'proof', 'kani': ['isa'], 'trusted_base': _KANI_TB, 'design_ref': 'DESIGN.md 5.5',
    'technique': 'Kani/CBMC loop-free harness per concrete opcode over full-domain symbolic registers/flags/immediates/bus values: real decode + run_op == independent SM83 spec',
    'level_text': 'For each defined encoding (thorough: all 500; quick: a stratified subset incl. every block terminator, every (HL) form and one register form per ALU/CB row) CBMC proves, for every A/F/BC/DE/HL/SP/PC, immediate and bus value, that decoder::decode + interpreter::run_op leave AF, BC, DE, HL equal to the SM83 reference (flags incl. DAA, rotates through carry, 16-bit adds, ADD SP,e8, POP AF masking), with every pair < 65536 and F low nibble 0. Loop-free over full domains: a complete proof per opcode, not a bounded one.',
    'level_note': 'Trusts the SM83 spec library, CBMC, and the recording bus as a faithful abstraction of the bus contract (C10). Quick tier covers a subset of encodings; the thorough tier covers all.',
    'assumptions': [],
}
PROPS['C06'] = {
    'level': 'proof', 'kani': ['isa'], 'trusted_base': _KANI_TB, 'design_ref': 'DESIGN.md 5.6',
    'technique': 'same Kani/CBMC per-opcode harnesses, control group: PC/SP/length/cycles (taken and not taken)/block end/status/ordered bus trace vs the SM83 spec; undefined opcodes reach only the panic',
    'level_text': 'Same harnesses as C05, control checks: PC after = PC + length or the defined target mod 2^16, SP and the stack bytes (high byte first) for PUSH/POP/CALL/RET/RST, machine cycles for both branch outcomes, Op::is_block_end against the table, status code, number/order/content of bus accesses; each of the 11 undefined encodings decodes to Op::Invalid and run_op can only panic on it.',
    'level_note': 'Call-site precondition pc <= 0xFFFC (instruction inside one fetch slice). interpreter::run_next_op / run_code_block (fetch loop) are covered by unit core_step.',
    'assumptions': [],
}

_CORE_TB = _BUS_TB + ['decoder::decode / interpreter::run_op / Op::is_block_end are external_body in unit core_step: their assumed contract (status <= 5, 1..3 bytes, 4..24 clocks, +0..3 taken cycles, SP/PC < 65536) is what the Kani ISA obligations of C05/C06 discharge per opcode; determinism of these functions is assumed',
                      'CodeCache is an opaque type in unit core_step (interpreter-only build)']
PROPS['C07'] = {
    'level': 'proof', 'verus': ['core_step'], 'kani': ['misc:irq'], 'trusted_base': _CORE_TB, 'design_ref': 'DESIGN.md 5.7',
    'technique': 'Verus contract on Core::handle_interrupt (relation irq_post) over the bus write contract + a loop-free Kani twin of the same function over all IF/IE/IME/run-state/SP/PC values (gives counterexamples, replayed natively)',
    'level_text': 'Core::handle_interrupt is extracted from /repo and proved against irq_post, the property sentence by sentence: pending = IF & IE; none pending => whole core unchanged; otherwise the CPU resumes; master enable not on => registers, memory, IME unchanged; on => IME off, PC high byte written at SP-1 then low byte at SP-2 (mod 2^16, through the bus contract, so pushes landing on IE/IF/ROM are covered), pending set re-sampled between the writes, lowest pending bit selects vector/IF bit, cancellation gives PC = 0 with IF untouched, +5 machine cycles.',
    'level_note': 'The existential over the two intermediate memory states is witnessed by ghost snapshots placed by textual anchors (a lost anchor makes the run undecided, not an alarm).',
    'assumptions': [],
}
PROPS['C08'] = {
    'level': 'proof', 'verus': ['core_step'], 'kani': ['isa'], 'trusted_base': _CORE_TB, 'design_ref': 'DESIGN.md 5.8',
    'technique': 'Verus contracts on Core::run_interp / Core::update / interpreter::run_next_op against the reference machine ime_step/run_step; induction lemmas over status sequences',
    'level_text': 'run_interp is proved to hand handle_interrupt exactly the state (IME = ime_step(old IME, status), run state = run_step, devices caught up); no dispatch happens in a step whose IME is not Enabled after the instruction; update proves that a halted/stopped CPU executes nothing, stays at the same PC until IF & IE != 0, and resumes at the following instruction (or in the handler when IME is on). Lemmas over ime_step give the EI delay, EI;DI, DI/RETI immediacy and "IME stays off" for all sequences.',
    'level_note': 'Status codes per opcode (EI, DI, RETI, HALT, STOP and NORMAL for everything else) are the check "C06,C08: status" of the Kani ISA harnesses, counted here as well; the rest of run_op\'s contract is assumed in unit core_step. HALT with an interrupt already pending is excluded as in the property.',
    'assumptions': ['the executed instruction does not straddle the end of its fetch slice (decode would index past the slice otherwise)'],
}
PROPS['C09'] = {
    'level': 'proof', 'verus': ['core_step', 'bus', 'timer', 'codecache'], 'kani': ['jit:frame'], 'also_counts': ['C02'], 'trusted_base': _CORE_TB, 'design_ref': 'DESIGN.md 5.9',
    'technique': 'Verus contracts: get_consumed_cycles, to_clock_cycles, run_interp, update, MemoryAreas::run_clock_cycles, IO::run_clock_cycles, Timer::run_cycles (devices advance by exactly 4 x consumed)',
    'level_text': 'Per step (instruction-stepped build): the devices receive catchup_post(mem, 4 * cycles) where cycles = the instruction\'s machine cycles (>= 1) plus the 5 pending from a previous dispatch; the timer view advances by exactly that many clocks (run), the LCD by video_after of the same count, DMA by count/4 bytes; catch-up happens before interrupts are sampled; a dispatch leaves exactly 5 cycles pending; a halted step delivers 4 clocks.',
    'level_note': 'Core::run_frame (instruction-stepped build) is proved to terminate: every update() advances the LCD position by k machine cycles with 1 <= k <= 14, so the clocks-to-VBlank / clocks-to-end-of-VBlank variants strictly decrease (one assume(): the guest keeps PC inside executable memory). The explicit bound is proved with a ghost clock: run_frame delivers at most 144*456 + 56 + 10*456 + 56 = 70336 LCD clocks (one frame period plus two instructions), well inside "two frame periods plus one block". Block-stepped (jit) accounting: the jit variant of Core::run_code_block (unit codecache) delivers 4 x the block\'s cycle count, and the Kani harness j_frame (the C02 checks of the translated prologue / block epilogue, counted here) shows that a translated block starts from the pending cycle count (the 5 cycles of a dispatch) and stores the accumulated count back; per-instruction cycle counts inside a block are C02.',
    'assumptions': ['one catch-up batch <= 0xffff0000 clocks'],
}

PROPS['C14'] = {
    'level': 'proof', 'verus': ['video_timing', 'video_leaf'], 'design_ref': 'DESIGN.md 5.14',
    'trusted_base': TB_VERUS + ['rule R7 (program slice): the mode-3 pixel block and the mode-2 -> 3 tile set-up of run_clock_cycles are replaced by external stubs after a syntactic check that they (and the three rendering helpers) assign no timing / register-file field',
                                'vstd specification of core::mem::swap'],
    'technique': 'Verus loop invariant on the timing slice of VideoState::run_clock_cycles against a recursive closed-form schedule in structured coordinates; batching / frame-period lemmas by induction',
    'level_text': 'VideoState::run_clock_cycles (sliced, R7), check_current_line, check_mode_interrupt, get_lcd_status, get_ly, get_current_mode, new and the register setters are proved for every elapsed time (multiple of 4), every STAT enable mask and LYC: the (line, offset, mode) state after n clocks equals lcd_run(n/4) of the reference schedule (456-clock lines 0..153, modes 2/3/0 = 80/188/188 clocks, lines 144-153 mode 1), the returned VBlank/STAT requests equal the OR of the per-step reference flags (VBlank exactly when LY becomes 144; STAT on entry to modes 2/0/1 with their enables and when LY becomes LYC), STAT bits 0-2 reflect the schedule; lemma_lcd_batching proves independence of batching and lemma_lcd_frame_period the 70224-clock frame.',
    'level_note': 'Termination / panic-freedom of the pixel code that the R7 slice removes is proved separately on the unsliced function (video_leaf: run_clock_cycles_safe, counted here). The register-file frame is proved on a second copy of the same extracted text (run_clock_cycles_frame).',
    'assumptions': ['elapsed time per batch is a multiple of 4 clocks (callers pass 4 x machine cycles)'],
}

_JIT_TB = ['Kani 0.68 + CBMC 6.11 (SAT back end)', 'kani/src/x86.rs: x86-64 semantics for the instruction forms the emitter uses (trusted model)',
           'reference = the real decoder + interpreter (pinned to the SM83 spec by C05/C06)', 'recording-bus stub for memory_read_byte/memory_write_byte',
           'the repository files are compiled unmodified via #[path] includes (no extraction)']
PROPS['C01'] = {
    'level': 'proof', 'kani': ['jit'], 'verus': ['codecache'], 'trusted_base': _JIT_TB, 'design_ref': 'DESIGN.md 5.1',
    'technique': 'Kani/CBMC per-opcode translation validation: bytes of the real Emitter::encode_op == derived template (all immediates), template executed under an x86-64 model == real interpreter (all guest/host states)',
    'level_text': 'For each defined encoding (thorough: all 500; quick: a stratified subset incl. every block terminator and every helper-call shape) CBMC proves for every guest register/flag/immediate/bus value and every unspecified host register and flag: (a) the real encode_op emits exactly the template derived natively from it, (b) that template, run under the x86-64 model with helper calls havocking the SysV caller-saved state, leaves AF/BC/DE/HL/SP/PC and the status code exactly as decoder::decode + interpreter::run_op do, performs the same bus writes with the same values in the same order, calls helpers with the MemoryAreas pointer, keeps rsp/rbp and the host stack balanced and leaves only by falling off its end.',
    'level_note': 'Per-instruction contract; multi-instruction blocks follow by sequential composition of self-contained templates (argument in DESIGN.md 5.1, not mechanised); the prologue / block epilogue / epilogue function are covered by the harness j_frame; the block loop of translate_code_block (which guest bytes a block covers, where it is filed) is covered by the Verus unit codecache. A model fault or template mismatch is reported as undecided, never as a violation.',
    'assumptions': ['x86 model is trusted (self-tested against the host CPU by the replay binary where available)'],
}
PROPS['C02'] = {
    'level': 'proof', 'kani': ['jit'], 'trusted_base': _JIT_TB, 'design_ref': 'DESIGN.md 5.2',
    'technique': 'same Kani/CBMC per-opcode harnesses, named check "C02: cycles": r15 after the template == Registers.cycles after run_op + cycles/4, flags symbolic (taken and not taken)',
    'level_text': 'Same harnesses as C01; the check "C02: cycles" proves that the 16-bit cycle counter the translated code leaves in r15 equals what interpreter::run_next_op accumulates for the same instruction, for every flag state (both outcomes of every conditional JP/JR/CALL/RET). Sums over blocks follow from per-instruction equality.',
    'level_note': 'Core::run_code_block conversion of the counter to device time is covered by C09 for the interpreter build only.',
    'assumptions': [],
}

_CC_TB = _CORE_TB + ['vstd specification of std::collections::BTreeMap (group_btree_axioms)',
                     'rule R9 (closure parameter types / ensures added by ordinal) and R10 (listed textual rewrites: the MemoryAreas pointer captured by the Emitter becomes an explicit parameter of CodeCache::call)',
                     'CodeCache::call is external_body with an assumed contract (what C01/C02 establish per instruction); the block loop of translate_code_block is proved up to the assumed lemma axiom_emitted_block_is_translation (emitted code of a one-region block is a translation; executable memory is append-only) and three listed assume()s (block ends before 0x8000; the 8 MiB cache has room - the code has no check); Emitter / ExecutableMemory are opaque; is_translation is uninterpreted']
PROPS['C03'] = {
    'level': 'proof', 'verus': ['codecache'], 'trusted_base': _CC_TB, 'design_ref': 'DESIGN.md 5.3',
    'technique': 'Verus contracts on cache/blocks.rs (BTreeMap view keyed by (bank, address)), CodeCache lookup/insert, and the jit head of Core::run_code_block: lookups and insertions require tags fresh w.r.t. the mapped bank; invariant lemmas',
    'level_text': 'CacheRegion::{new,insert,get,set_bank}, CachedBlocks::{new,set_rom_bank,get_region,get_region_mut}, MemoryLocation::{new,as_u32}, CodeCache::{set_rom_bank,get_address_for_ip,insert_code_block} are proved against a Map<(bank,address),CodeBlock> view; Core::run_code_block (feature jit) is proved to establish tag_fresh (rom_low tag 0, rom_high tag = the bank currently visible, i.e. the controller bank reduced to the ROM size) before every lookup/translation, and to call only an offset that is a translation of the bytes currently mapped at PC; lemma_hit_is_current / lemma_insert_keeps_inv show that the invariant "every entry is a translation of its own (bank, address)" survives any interleaving of insertions and bank switches because ROM is immutable (C10 frame).',
    'level_note': 'What "is a translation of" means operationally is C01; here it is an uninterpreted predicate established by the assumed contract of translate_code_block and consumed by the assumed contract of call. translate_code_block is under contract: its loop invariant proves that the guest bytes of a block come from ONE region (fixed bank, or the currently mapped switchable bank), that the block is filed under (current tag, ip) and starts at the old write cursor.',
    'assumptions': ['executable memory is append-only: earlier translations stay valid when new code is emitted (part of the assumed translate_code_block contract)'],
}
PROPS['C04'] = {
    'level': 'proof', 'verus': ['core_step', 'codecache'], 'kani': ['jit'], 'also_counts': ['C01', 'C02'], 'trusted_base': _CC_TB, 'design_ref': 'DESIGN.md 5.4',
    'technique': 'Core::run_code_block extracted twice (cfg jit on / off, rule R4) and proved against the SAME relational postcondition block_post over interp_block, catch-up and irq_post',
    'level_text': 'Both build variants of Core::run_code_block are proved to satisfy block_post(old, new): registers/memory = the interpreter\'s block effect, IME/run-state from the status class, last_block_cycle_length, device catch-up of exactly 4 x block cycles, then interrupt dispatch. In the jit variant this needs: can_dynarec(ip) <=> ip < 0x8000 (RAM code is interpreted), fresh tags, a cache hit or fresh translation being a translation of the currently mapped bytes (C03), and the assumed contract of CodeCache::call (= C01 + C02). Equal states stepped by either variant therefore satisfy the same relation, step after step.',
    'level_note': 'The assumed contract of CodeCache::call is what C01/C02 establish, so this check also runs the C01/C02 Kani obligations (per-encoding harnesses and j_frame; shared cache) and counts their failures as its own; device state hidden behind MemoryAreas::run_clock_cycles is a deterministic function of (state, cycles) only up to the contracts used (timer, LCD schedule, DMA); serial output is C18.',
    'assumptions': ['interpreter::run_code_block / CodeCache::call: at most 0x30005 machine cycles per block (no u32 overflow of Registers.cycles)'],
}

PROPS['C18'] = {
    'level': 'proof', 'verus': ['bus'], 'kani': ['misc:serial', 'isa', 'jit'], 'named_only': True, 'scans': ['stdout'], 'design_ref': 'DESIGN.md 5.18',
    'trusted_base': _BUS_TB + ['Kani stubs for io::stdout / <Stdout as Write>::write / flush: a recording stream (the host write is assumed to write the whole 1-byte buffer)'],
    'technique': 'Kani full-domain harness on the real SerialComms::set_control with the host stream stubbed by a recorder; Verus routing contract of IO::set_byte / memory_write_byte; syntactic frame scan for other writers of stdout',
    'level_text': 'serial_set_control (CBMC, all latch/control/value bytes): a control write with bit 7 set emits exactly the byte held in the data register, once; bit 7 clear and data-register writes emit nothing. Verus (unit bus): only addresses 0xFF01/0xFF02 reach the serial port, 0xFF01 latches the value, 0xFF02 hands it to set_control, every other bus write leaves the serial state untouched. Scan: no other print!/println!/stdout use exists in the core modules (default + jit feature set), so nothing else is emitted while a ROM runs. Both execution modes reach set_control through the same memory_write_byte (C01 bus-write equality).',
    'level_note': 'Program order: within an instruction the order of its bus writes is the check "bus access order and content" of every ISA harness (interpreter) and "same bus writes in the same order" of every JIT harness (translated code); those two checks are counted here too (only those: other failures of the same harnesses belong to C01/C05/C06). Across instructions it is the sequential execution of blocks. A counterexample of serial_set_control is replayed on the real SerialComms with fd 1 redirected to a pipe (replay-serial); run-time text formatting on the stream is over-approximated by a stub, so such a failure is a violation only if the replay shows wrong bytes. The scan is syntactic (over-approximate): any textual print!/println!/stdout( in core code is reported.',
    'assumptions': ['host write() of a 1-byte buffer writes it completely'],
}
PROPS['C19'] = {
    'level': 'proof', 'kani': ['misc:header'], 'verus': ['loader'], 'design_ref': 'DESIGN.md 5.19',
    'trusted_base': ['Kani 0.68 + CBMC 6.11', 'the repository files are compiled unmodified via #[path] includes', 'header tables / checksum definition written from the cartridge header specification (kani/src/misc.rs)'],
    'technique': 'Kani full-domain harnesses on the real repr(C, packed) Header (checksum, tables, controller construction) + Verus contracts on the loader call chain (load_rom -> from_rom_file -> with_rom_file -> map_rom_file) with a ghost file length',
    'level_text': 'For every 80-byte header: valid_checksum() holds iff the checksum of bytes 0x134-0x14C equals byte 0x14D; get_rom_bank_count / get_rom_size_bytes / get_ram_size_bytes equal the header tables for all 256 codes (and always satisfy the bus invariant mem_wf: C11); create_cart_state returns a fresh controller for every supported type and can only panic ("Unsupported cart type", a controlled termination at load time) for the others.',
    'level_note': 'Verus unit loader: main::load_rom, Core::from_rom_file, MemoryAreas::with_rom_file, system::get_rom_buffer and the Header size/type functions are under contract: map_rom_file (external) REQUIRES file_len >= mapped size, from_rom_file REQUIRES a checksum-valid header and file_len >= the table size, and load_rom is proved to establish both at its call site; with_rom_file is proved to return a well-formed bus (mem_wf) with exactly the table sizes for every header. File I/O (open, seek/read_exact in read_header, metadata, mmap) is assumed by specification; the "Unsupported cart type" panic is treated as the controlled termination the property allows.',
    'assumptions': ['read_header returns Err for files shorter than 0x150 bytes (std read_exact semantics)'],
}
PROPS['C20'] = {
    'level': 'proof', 'verus': ['disasm'], 'kani': ['misc:strs'], 'design_ref': 'DESIGN.md 5.20',
    'trusted_base': TB_VERUS + ['decoder::decode external in unit disasm (length 1..3, determinism); Op::to_string external', 'Kani/CBMC for the string harnesses'],
    'technique': 'Verus loop invariant on debug::disassembly::disassemble (cursor = sum of decoder lengths, addresses mod 2^16); Kani harnesses on parse_address over all ASCII tokens up to a stated length (bounded)',
    'level_text': 'disassemble is proved (any length, no bound) to tile a byte sequence that ends on an instruction boundary exactly: instruction k starts where k-1 ended, carries the decoder\'s length and bytes, its address is initial + offset mod 2^16, and the cursor ends at the input length. parse_address: for every ASCII token of at most 6 bytes, 0x-prefixed hexadecimal and decimal notation parse to exactly their value and malformed / out-of-range input is rejected (reported under coverage.bounded, not counted as proved).',
    'level_note': 'Command-word parsing (case / whitespace normalisation, totality on arbitrary Unicode) is not under contract: str/Unicode reasoning is outside Verus and the CBMC cost of to_lowercase/split_whitespace was not attempted. A leading "+" (accepted by from_str_radix) is not treated as malformed.',
    'assumptions': [],
}
PROPS['C15'] = {
    'level': 'proof', 'kani': ['misc:leaf'], 'verus': ['video_timing', 'video_leaf'], 'design_ref': 'DESIGN.md 5.15',
    'trusted_base': ['Kani 0.68 + CBMC 6.11', 'Verus/Z3 + extraction rules R1-R11', 'LCD::get_writing_buffer_line external_body: the returned slice is the 160-byte window of the line in the writing buffer', 'interleave_spec is uninterpreted in Verus; its bit layout is the Kani obligation leaf_interleave'],
    'technique': 'Verus contracts on the real rendering functions, all of them in one unit so that every caller is checked against the proved callee contract: the whole of VideoState::run_clock_cycles (mode machine + mode-3 pixel pipeline, unsliced) against a declarative reference composition, find_current_line_sprites against a declarative selection/priority spec, leaf contracts for tile/map addressing, row fetch and palettes; Kani full-domain harness for tile::interleave',
    'level_text': 'Frame (Verus, all VRAM/OAM contents, SCX/SCY/WX/WY, palettes, LCDC bits 1-6, any batching of cycles): run_clock_cycles preserves the rendering invariant pipe_inv (what has been drawn of the frame so far equals the reference composition and the tile/object pipeline is positioned where the dot counter says; trivially true in VBlank, where VideoState::new starts and every frame begins), and whenever a call raises the VBlank request the visible buffer satisfies frame_ok: every pixel (x, y) = mix(BG/window colour index, object layer of line y), where the BG index comes from the configured map and tile-data addressing at ((x+SCX) mod 256, (y+SCY) mod 256), the window replaces it from column WX-7 on lines >= WY (left of, inside or right of the screen), and the object layer is the one proved for find_current_line_sprites. Object layer (all inputs, both object sizes): the 176-entry line cache holds at every index the opaque pixel of the lowest-X-then-lowest-OAM-index object among the first ten OAM entries covering the line, with y-flip, x-flip, 8x16 tile pairing, palette and BG-over-OBJ bit; objects at X >= 168 draw nothing. Leaves (all inputs): signed/unsigned tile addressing, map addressing with SCY wrap and 32-column wrap, window line, object row fetch, shade tables; tile::interleave for all 2^16 inputs (CBMC, complete).',
    'level_note': 'The proof of run_clock_cycles is split by rule R11 into one obligation per LCD mode (run_clock_cycles_pixels_case0..3): each copy assumes the other three match arms away, together they cover every path (the unsplit query needs rlimit 300 / 110 s and is unstable). LCD::get_writing_buffer_line (a range-index borrow of the frame buffer) is external with the slice semantics as its contract. Inputs held constant = the same vram/oam passed to every call and no register write in between (the contract is per call; the induction over calls is the usual one over pipe_inv). LCDC.0 (BG off) and LCDC.7 (LCD off) are outside the property and not modelled: the code ignores LCDC.0 when drawing.',
    'assumptions': [],
}

# functions whose Verus contract is also decided, completely, by a Kani harness family on the real function
TWINS = {'Core::handle_interrupt': ('misc:irq', 'C07'),
         'Joypad::get_value': ('misc:joypad', 'C17'), 'Joypad::set_value': ('misc:joypad', 'C17'), 'Joypad::press_button': ('misc:joypad', 'C17'),
         'Joypad::release_button': ('misc:joypad', 'C17'), 'Joypad::get_interrupt': ('misc:joypad', 'C17')}   # (Kani group, the property its checks are labelled with)

HOOK_COMMITS = ['e7167ea', '094daf3', 'ddd33be', 'b06d137']
NOT_APPLICABLE = {}
