"""Which engines decide which property."""

TB_VERUS = ['Verus 0.2026.09.13 + Z3 (vstd axioms incl. wrapping_* / Box<[u8]> indexing specs)',
            'extraction rules R1-R6 of DESIGN.md section 3.2 (lib/vx.py)',
            'spec functions in /verif/specs written from the property statement']

UNITS = {
    'timer': {},
}

PROPS = {
    'C13': {
        'level': 'proof',
        'verus': ['timer'],
        'trusted_base': TB_VERUS,
        'assumptions': ['one catch-up batch is at most 0xffff0000 clocks (ClockCycles::as_u32 truncates above 2^32); '
                        'callers deliver at most 4 * 0x30000 clocks per batch',
                        'machine integers are modelled exactly by Verus (overflow checks on)'],
    },
}
