"""Which engines decide which property."""

TB_VERUS = ['Verus 0.2026.09.13 + Z3 (vstd axioms incl. wrapping_* / Box<[u8]> indexing specs)',
            'extraction rules R1-R6 of DESIGN.md section 3.2 (lib/vx.py)',
            'spec functions in /verif/specs written from the property statement']

UNITS = {
    'timer': {},
    'joypad': {},
}

PROPS = {
    'C13': {
        'level': 'proof',
        'verus': ['timer'],
        'technique': 'Verus function contracts + loop invariant against a per-clock recursive spec; batching lemma by induction',
        'level_text': 'Every function of devices/timer.rs is extracted from /repo on each run and proved (all inputs, all batch sizes, no bound) against the per-clock reference run(s,n): run_cycles == run, TAC write edge rule, reload/IRQ on overflow, DIV = elapsed mod 2^16 bits 8-15, batching lemma run(a+b) == run(a);run(b).',
        'level_note': 'Trusts Verus/Z3, the extraction rules and the timer spec functions; assumes one batch <= 0xffff0000 clocks.',
        'design_ref': 'DESIGN.md 5.13',
        'trusted_base': TB_VERUS,
        'assumptions': ['one catch-up batch is at most 0xffff0000 clocks (ClockCycles::as_u32 truncates above 2^32); '
                        'callers deliver at most 4 * 0x30000 clocks per batch',
                        'machine integers are modelled exactly by Verus (overflow checks on)'],
    },
}

PROPS['C17'] = {
    'level': 'proof',
    'verus': ['joypad'],
    'technique': 'Verus function contracts over the complete transition relation (bit-vector lemmas for the line/edge arithmetic)',
    'level_text': 'Every function of devices/joypad.rs is extracted from /repo on each run and proved for all 256 button states x 4 selections x all actions: get_value & 0x3f == p1(buttons, selection); press/release/set_value update exactly the named bits; the request is latched iff prev_lines & !new_lines & 0x0f != 0; get_interrupt reports it once and clears it.',
    'level_note': 'Trusts Verus/Z3, the extraction rules, the joypad spec functions and an assume_specification for std::mem::replace.',
    'design_ref': 'DESIGN.md 5.17',
    'trusted_base': TB_VERUS + ['assume_specification std::mem::replace (returns old value, stores new one)'],
    'assumptions': ['P1 bits 6-7 are outside the property (excluded by its quantifier)'],
}

HOOK_COMMITS = []
NOT_APPLICABLE = {}
