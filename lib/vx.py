#!/usr/bin/env python3
"""Mechanical extractor + contract splicer for the Verus units.

A unit is described by a template `specs/<unit>.vspec`.  Everything in the template is copied
verbatim into the generated file (spec functions, lemmas, `impl X {` wrappers ...) except for
directive blocks that start with `//@`:

  //@ use  <repo file> :: <item path>            copy a struct/enum/const item through the rewrite rules
  //@ fn   <repo file> :: <item path> [C01,C02] [cfg=jit|nojit] [external] [novac]
  //@ ret (r: T)                                 name the return value
  //@ requires / ensures / recommends            clause lines follow (plain text, copied)
  //@ loop <k> invariant|decreases|body          per loop ordinal k (0-based, textual order)
  //@ blockend <n> "text"                        hint just before the brace closing the block opened at the n-th occurrence of text
  //@ cases "arm text" "arm text" ...            R11: one copy of the function per listed match arm (see DESIGN 9.2)
  //@ loop <k> spec                              raw loop clauses (invariant_except_break ... invariant ... ensures ...)
  //@ entry                                      proof text inserted at function entry (structural anchor)
  //@ before <n> "<statement text>"              proof text before the n-th occurrence (textual anchor, optional hint)
  //@ end
  //@ tag <fn name> C01,C02                      attribute a literal (template) function to properties

The item text is taken from /repo on every run; only the rewrite rules R1..R6 of DESIGN.md §3.2
are applied to it.  Anything outside the rules raises ExtractError (driver: exit 2 = undecided).
"""
import re, os, json

REPO = os.environ.get('VERIF_REPO', '/repo')


class ExtractError(Exception):
    pass


# ---------------------------------------------------------------- lexical helpers
def mask_noncode(src):
    """Copy of src with comments, string and char literals blanked (same length)."""
    out = list(src)
    i, n = 0, len(src)
    while i < n:
        c = src[i]
        if src.startswith('//', i):
            j = src.find('\n', i)
            j = n if j < 0 else j
            for k in range(i, j):
                out[k] = ' '
            i = j
        elif src.startswith('/*', i):
            depth, j = 1, i + 2
            while j < n and depth:
                if src.startswith('/*', j):
                    depth += 1; j += 2
                elif src.startswith('*/', j):
                    depth -= 1; j += 2
                else:
                    j += 1
            for k in range(i, j):
                if out[k] != '\n':
                    out[k] = ' '
            i = j
        elif c == '"':
            j = i + 1
            while j < n and src[j] != '"':
                j += 2 if src[j] == '\\' else 1
            for k in range(i + 1, j):
                if out[k] != '\n':
                    out[k] = ' '
            i = j + 1
        elif c == "'":
            m = re.match(r"'(\\.|[^\\'])'", src[i:])
            if m:
                for k in range(i + 1, i + m.end() - 1):
                    out[k] = ' '
                i += m.end()
            else:
                i += 1
        else:
            i += 1
    return ''.join(out)


def match_close(masked, open_idx, open_ch='{', close_ch='}'):
    depth = 0
    for k in range(open_idx, len(masked)):
        ch = masked[k]
        if ch == open_ch:
            depth += 1
        elif ch == close_ch:
            depth -= 1
            if depth == 0:
                return k
    raise ExtractError("unbalanced %s at %d" % (open_ch, open_idx))


# ---------------------------------------------------------------- item slicing
ITEM_RE = re.compile(
    r'^[ \t]*((?:#\[[^\]]*\]\s*)*)(pub(?:\([^)]*\))?\s+)?(?:(unsafe)\s+)?(?:(extern\s+"[^"]*")\s+)?'
    r'(struct|enum|trait|fn|impl|const|static|mod)\b', re.M)


class Item:
    def __init__(self, kind, name, start, end, body_open, text, line):
        self.kind, self.name, self.start, self.end = kind, name, start, end
        self.body_open, self.text, self.line = body_open, text, line


def items_in(src, masked, lo, hi):
    pos = lo
    while True:
        m = ITEM_RE.search(masked, pos, hi)
        if not m:
            return
        start = m.start()
        kind = m.group(5)
        after = masked[m.end():hi]
        if kind == 'impl':
            hm = re.match(r'\s*(?:<[^>{]*>)?\s*([^{]+?)\s*\{', after)
            if not hm:
                raise ExtractError("cannot parse impl header at %d" % start)
            name = re.sub(r'\s+', ' ', hm.group(1))
        else:
            nm = re.match(r'\s*([A-Za-z_][A-Za-z0-9_]*)', after)
            if not nm:
                raise ExtractError("cannot parse item name at %d" % start)
            name = nm.group(1)
        k = m.end(); depth_p = 0; body_open = None; end = None
        while k < hi:
            ch = masked[k]
            if ch in '([':
                depth_p += 1
            elif ch in ')]':
                depth_p -= 1
            elif ch == ';' and depth_p == 0:
                end = k + 1; break
            elif ch == '{' and depth_p == 0:
                body_open = k; end = match_close(masked, k) + 1
                break
            k += 1
        if end is None:
            raise ExtractError("cannot find end of item %s" % name)
        yield Item(kind, name, start, end, body_open, src[start:end], src.count('\n', 0, start) + 1)
        pos = end


_SRC_CACHE = {}


def read_repo(rel):
    p = os.path.join(REPO, rel)
    if p not in _SRC_CACHE:
        try:
            s = open(p).read()
        except OSError as e:
            raise ExtractError("lost anchor: file %s (%s)" % (rel, e))
        _SRC_CACHE[p] = (s, mask_noncode(s))
    return _SRC_CACHE[p]


def find_item(rel, path):
    """path like 'impl Timer > fn run_cycles' | 'struct Timer' | 'fn memory_read_byte'.  Several items can share a
    header (e.g. two `impl X` blocks): every candidate is tried; items guarded by cfg(gb_dynarec_verif) / cfg(test) are skipped."""
    src, masked = read_repo(rel)
    parts = [p.strip() for p in path.split('>')]

    def search(k, lo, hi):
        kind, name = parts[k].split(' ', 1)
        name = name.strip()
        for it in items_in(src, masked, lo, hi):
            if it.kind != kind or it.name != name:
                continue
            head = src[it.start:it.body_open if it.body_open is not None else it.end]
            if re.search(r'#\[cfg\((?:gb_dynarec_verif|test)\)\]', head):
                continue
            if k == len(parts) - 1:
                return it
            if it.body_open is not None:
                r = search(k + 1, it.body_open + 1, it.end - 1)
                if r is not None:
                    return r
        return None
    found = search(0, 0, len(src))
    if found is None:
        raise ExtractError("lost anchor: %s :: %s" % (rel, path))
    return found


# ---------------------------------------------------------------- rewrite rules
def _eval_cfg(expr, features):
    e = expr.strip()
    m = re.fullmatch(r'not\s*\((.*)\)', e, re.S)
    if m:
        v = _eval_cfg(m.group(1), features)
        return None if v is None else (not v)
    m = re.fullmatch(r'feature\s*=\s*"([^"]+)"', e)
    if m:
        return m.group(1) in features
    if e == 'unix':
        return True
    if e == 'windows':
        return False
    if e == 'test':
        return False
    if e == 'gb_dynarec_verif':
        return False   # the Verus units verify the code as shipped (verification hooks compiled out)
    return None


def apply_cfg(text, features):
    """R4: evaluate #[cfg(..)] attributes on the statement/block/item that follows."""
    while True:
        masked = mask_noncode(text)
        m = re.search(r'#\[cfg\(', masked)
        if not m:
            return text
        close = match_close(masked, m.end() - 1, '(', ')')
        expr = text[m.end():close]
        rb = masked.index(']', close)
        val = _eval_cfg(expr, features)
        if val is None:
            raise ExtractError("unsupported construct: cfg(%s)" % expr)
        # extent of the attributed statement
        k = rb + 1
        n = len(masked)
        while k < n and masked[k].isspace():
            k += 1
        if masked[k] == '{':
            end = match_close(masked, k) + 1
        else:
            dp = 0; j = k; end = None
            while j < n:
                ch = masked[j]
                if ch in '([':
                    dp += 1
                elif ch in ')]':
                    dp -= 1
                elif ch == '{':
                    j = match_close(masked, j)
                    # an item like `fn f() {..}` or `mod x {..}` ends here unless followed by ';' of a let
                    rest = masked[j + 1:].lstrip()
                    if dp == 0 and not (rest.startswith(';') or rest.startswith('.') or rest.startswith('else')):
                        if not re.match(r'\s*let\b', masked[k:]):
                            end = j + 1; break
                elif ch == ';' and dp == 0:
                    end = j + 1; break
                j += 1
            if end is None:
                raise ExtractError("cannot delimit cfg-attributed statement")
        if val:
            text = text[:m.start()] + text[rb + 1:]
        else:
            text = text[:m.start()] + text[end:]


def apply_cfg_blank(text, features):
    """Like apply_cfg but keeps line numbers: statements whose cfg is false are blanked, true attributes are blanked."""
    while True:
        masked = mask_noncode(text)
        m = re.search(r'#\[cfg\(', masked)
        if not m:
            return text
        close = match_close(masked, m.end() - 1, '(', ')')
        expr = text[m.end():close]
        rb = masked.index(']', close)
        val = _eval_cfg(expr, features)
        blank = lambda a, b: ''.join(ch if ch == '\n' else ' ' for ch in text[a:b])
        if val is None or val:
            text = text[:m.start()] + blank(m.start(), rb + 1) + text[rb + 1:]
            continue
        k = rb + 1
        n = len(masked)
        while k < n and masked[k].isspace():
            k += 1
        if masked[k] == '{':
            end = match_close(masked, k) + 1
        else:
            j = k
            while j < n and masked[j] not in ';{':
                j += 1
            end = (match_close(masked, j) + 1) if (j < n and masked[j] == '{') else j + 1
        text = text[:m.start()] + blank(m.start(), end) + text[end:]


PTR_TYPES = r'(MemoryAreas|Registers|Self)'


def apply_rules(text, features=(), keep_unsafe=False):
    t = apply_cfg(text, features)
    # R6: an ignored loop variable gets a name so that invariants can mention the iteration count
    t = re.sub(r'\bfor\s+_\s+in\b', 'for verif_i in', t)
    # R2: ABI / attributes
    t = re.sub(r'extern\s+"sysv64"\s+', '', t)
    def _derive(m):
        keep = [d for d in re.split(r'\s*,\s*', m.group(2).strip()) if d in ('Copy', 'Clone', 'PartialEq', 'Eq')]
        if 'PartialEq' in keep and 'Eq' in keep:
            keep.append('Structural')    # derived equality is structural: `a == b` in code means equality of the values
        return (m.group(1) + '#[derive(' + ', '.join(keep) + ')]\n') if keep else ''
    t = re.sub(r'^([ \t]*)#\[derive\(([^\]]*)\)\]\s*\n', _derive, t, flags=re.M)
    t = re.sub(r'^[ \t]*#\[(inline[^\]]*|repr\([^\]]*\)|allow\([^\]]*\))\]\s*\n', '', t, flags=re.M)
    # R3: panics become obligations
    for pat, repl in ((r'\b(panic|unreachable|unimplemented)!\s*\(', 'verif_unreached()'),):
        m = mask_noncode(t)
        out = []; i = 0
        for mm in re.finditer(pat, m):
            close = match_close(m, mm.end() - 1, '(', ')')
            out.append(t[i:mm.start()]); out.append(repl); i = close + 1
        out.append(t[i:]); t = ''.join(out)
    # R3b: console output macros -> external no-op (what reaches stdout is decided by the C18 scan)
    m = mask_noncode(t)
    out = []; i = 0
    for mm in re.finditer(r'\b(println|print|eprintln|eprint)!\s*\(', m):
        close = match_close(m, mm.end() - 1, '(', ')')
        out.append(t[i:mm.start()]); out.append('verif_print()'); i = close + 1
    out.append(t[i:]); t = ''.join(out)
    m = mask_noncode(t)
    out = []; i = 0
    for mm in re.finditer(r'\.\s*expect\s*\(', m):
        close = match_close(m, mm.end() - 1, '(', ')')
        out.append(t[i:mm.start()]); out.append('.unwrap()'); i = close + 1
    out.append(t[i:]); t = ''.join(out)
    # R3: `unsafe { std::hint::unreachable_unchecked() }` is undefined behaviour if reached: same obligation as a panic
    t = re.sub(r'unsafe\s*\{\s*(?:std|core)::hint::unreachable_unchecked\(\)\s*\}', 'verif_unreached()', t)
    # R1: raw pointers
    # alias statements: let p = &mut self.memory as *mut MemoryAreas;
    for am in list(re.finditer(r'^[ \t]*let\s+([a-z_]+)\s*=\s*(&mut\s+self\.memory|&self\.memory|self)\s+as\s+\*(?:mut|const)\s+MemoryAreas\s*;[ \t]*\n', t, flags=re.M)):
        alias, expr = am.group(1), am.group(2)
        t = t.replace(am.group(0), '', 1)
        t = re.sub(r'\b%s\b' % re.escape(alias), expr, t)
    lt = re.search(r"\bfn\s+\w+\s*<\s*('[a-z]+)\s*>", t)
    lts = (lt.group(1) + ' ') if lt else ''
    t = re.sub(r'\*const\s+' + PTR_TYPES, r'&' + lts + r'\1', t)
    t = re.sub(r'\*mut\s+' + PTR_TYPES, r'&' + lts + r'mut \1', t)
    t = re.sub(r'unsafe\s*\{\s*&\s*\*\s*([a-z_]+)\s*\}', r'\1', t)
    t = re.sub(r'unsafe\s*\{\s*&mut\s*\*\s*([a-z_]+)\s*\}', r'\1', t)
    # field projections through a converted pointer: unsafe { &(*p).f.g } -> &(*p).f.g (p is a reference now)
    t = re.sub(r'unsafe\s*\{\s*(&(?:mut\s+)?\(\s*\*\s*[a-z_]+\s*\)(?:\s*\.\s*\w+)+)\s*\}', r'\1', t)
    t = re.sub(r'(&mut self(?:\.memory)?|self) as &mut MemoryAreas', lambda mm: mm.group(1), t)
    t = re.sub(r'(&self(?:\.memory)?|self) as &MemoryAreas', lambda mm: mm.group(1), t)
    t = re.sub(r'self\.memory\.as_ptr\(\)', '&self.memory', t)
    if not keep_unsafe and re.search(r'\bunsafe\b', mask_noncode(t)):
        raise ExtractError("unsupported construct: unsafe block outside rule R1")
    if re.search(r'\*(const|mut)\s', mask_noncode(t)):
        raise ExtractError("unsupported construct: raw pointer outside rule R1")
    return t


ASSIGN_OPS = r'(?:=(?!=)|\+=|-=|\*=|/=|%=|<<=|>>=|\|=|&=|\^=)'


def assigns_field(text, fields):
    m = mask_noncode(text)
    for f in fields:
        if re.search(r'\bself\s*\.\s*%s\s*(?:\[[^\]]*\]\s*)?%s' % (re.escape(f), ASSIGN_OPS), m):
            return f
        if re.search(r'&mut\s+self\s*\.\s*%s\b' % re.escape(f), m):
            return f
    return None


def apply_slice(text, sl, fname):
    """R7 (program slice): the block following `header` is replaced by `repl` after a syntactic check that the removed
    block assigns none of the fields the contract talks about."""
    m = mask_noncode(text)
    if sl.get('start'):
        # statement range: from the line of `start` through the end of the if/else chain that begins at `header`
        a = text.find(sl['start'])
        idx = text.find(sl['header'], a) if a >= 0 else -1
        if a < 0 or idx < 0 or text.find(sl['start'], a + 1) >= 0:
            raise ExtractError("lost anchor: slice range %r .. %r in %s" % (sl['start'], sl['header'], fname))
        k = m.index('{', idx)
        close = match_close(m, k)
        while True:
            em = re.match(r'\s*else\s*(if\b[^{]*)?\{', m[close + 1:])
            if not em:
                break
            k2 = close + 1 + em.end() - 1
            close = match_close(m, k2)
        line_start = text.rfind('\n', 0, a) + 1
        removed = text[line_start:close + 1]
        bad = assigns_field(removed, sl['forbid'])
        if bad:
            raise ExtractError("unsupported construct: sliced range of %s assigns self.%s" % (fname, bad))
        return text[:line_start] + sl['repl'] + text[close + 1:]
    idx = text.find(sl['header'])
    if idx < 0 or text.find(sl['header'], idx + 1) >= 0:
        raise ExtractError("lost anchor: slice header %r in %s" % (sl['header'], fname))
    k = m.index('{', idx + len(sl['header']) - 1) if not sl['header'].rstrip().endswith('{') else idx + len(sl['header'].rstrip()) - 1
    close = match_close(m, k)
    removed = text[k:close + 1]
    bad = assigns_field(removed, sl['forbid'])
    if bad:
        raise ExtractError("unsupported construct: sliced block of %s assigns self.%s" % (fname, bad))
    return text[:k] + '{ ' + sl['repl'] + ' }' + text[close + 1:]


def make_pub(text):
    """R2: struct fields and the item itself become pub."""
    lines = text.split('\n')
    out = []
    depth = 0
    for l in lines:
        s = l.strip()
        if depth == 1 and re.match(r'^[a-z_][A-Za-z0-9_]*\s*:', s):
            l = re.sub(r'^(\s*)', r'\1pub ', l, count=1)
        depth += mask_noncode(l).count('{') - mask_noncode(l).count('}')
        out.append(l)
    t = '\n'.join(out)
    t = re.sub(r'^([ \t]*)(?:pub(?:\([^)]*\))?\s+)?(struct|enum|const|trait)\b', r'\1pub \2', t, count=1, flags=re.M)
    # tuple struct fields
    t = re.sub(r'^([ \t]*pub struct \w+\()(?!pub)', r'\1pub ', t, count=1, flags=re.M)
    return t


# ---------------------------------------------------------------- contract splicing
def _loop_heads(mb):
    return [m for m in re.finditer(r'\b(while|loop|for)\b', mb)]


def _loop_body_open(mb, hm):
    k = hm.end(); dp = 0
    while True:
        ch = mb[k]
        if ch in '([':
            dp += 1
        elif ch in ')]':
            dp -= 1
        elif ch == '{' and dp == 0:
            return k
        k += 1


def splice_fn(fn_text, spec, notes):
    masked = mask_noncode(fn_text)
    body_open = masked.index('{')
    header, body = fn_text[:body_open], fn_text[body_open:]
    header = re.sub(r'^(\s*)(?:pub(?:\([^)]*\))?\s+)?fn\b', r'\1pub fn', header, count=1)
    if spec.get('trait_impl'):
        header = re.sub(r'^(\s*)pub fn\b', r'\1fn', header, count=1)
    if spec.get('ret'):
        header, n = re.subn(r'->\s*([^{]+?)\s*$', lambda m: '-> ' + spec['ret'] + ' ', header)
        if n != 1:
            raise ExtractError("cannot name return value of %s" % spec.get('name'))
    clauses = ''
    for kw in ('requires', 'ensures', 'recommends'):
        if spec.get(kw):
            clauses += '\n    ' + kw + '\n' + spec[kw].rstrip().rstrip(',') + ','
    if spec.get('fn_decreases'):
        clauses += '\n    decreases ' + spec['fn_decreases'].strip()
    if clauses:
        clauses += '\n  '
    if spec.get('declonly'):
        return header.rstrip() + ' ' + clauses.rstrip() + ';'
    if spec.get('external'):
        return ('#[verifier::external_body]\n' + header.rstrip() + ' ' + clauses + '{ unimplemented!() }')
    # R9: closures get their parameter types and an ensures clause (add-only annotation, keyed by ordinal)
    if spec.get('closures'):
        mb = mask_noncode(body)
        cl = [m for m in re.finditer(r'\(\s*(\|[^|]*\|)', mb)]
        if max(spec['closures']) >= len(cl):
            raise ExtractError("lost anchor: closure ordinal %d of %s" % (max(spec['closures']), spec.get('name')))
        for k in sorted(spec['closures'], reverse=True):
            m = cl[k]
            open_paren = m.start()
            close_paren = match_close(mb, open_paren, '(', ')')
            expr = body[m.end(1):close_paren].strip()
            body = body[:m.start(1)] + spec['closures'][k].strip() + ' { ' + expr + ' }' + body[close_paren:]
            mb = mask_noncode(body)
    # textual hints (optional: a lost anchor only drops the hint)
    for h in spec.get('before', []):
        occ = h['occ']; idx = -1
        ok = True
        for _ in range(occ):
            idx = body.find(h['text'], idx + 1)
            if idx < 0:
                ok = False
                break
        if not ok:
            notes.append("lost hint anchor in %s: before %r (hint dropped)" % (spec.get('name'), h['text']))
            continue
        if h.get('blockend'):
            # just before the brace that closes the block opened by the anchor text (e.g. the end of a match arm)
            mb = mask_noncode(body)
            ob = idx + h['text'].rfind('{') if '{' in h['text'] else mb.find('{', idx)
            cb = match_close(mb, ob)
            body = body[:cb] + h['proof'].rstrip() + '\n' + body[cb:]
            continue
        if h.get('after'):
            line_end = body.find('\n', idx)
            line_end = len(body) if line_end < 0 else line_end
            body = body[:line_end + 1] + h['proof'].rstrip() + '\n' + body[line_end + 1:]
            continue
        line_start = body.rfind('\n', 0, idx) + 1
        body = body[:line_start] + h['proof'].rstrip() + '\n' + body[line_start:]
    loops = spec.get('loops', {})
    if loops:
        mb = mask_noncode(body)
        heads = _loop_heads(mb)
        # skip loop keywords that appear inside inserted proof text? proof hints are inserted as code; exclude by
        # counting only heads of the original text: recompute on original body
        if max(loops) >= len(heads):
            raise ExtractError("lost anchor: loop ordinal %d of %s" % (max(loops), spec.get('name')))
        for ordinal in sorted(loops, reverse=True):
            mb = mask_noncode(body)
            heads = _loop_heads(mb)
            k = _loop_body_open(mb, heads[ordinal])
            inv = loops[ordinal]
            # fingerprint of the loop the annotations were written for: the variables its head mentions (R14)
            ids = set(re.findall(r'(?<![A-Za-z0-9_.:])[a-z_][a-z0-9_]*(?![A-Za-z0-9_]|\s*::|\s*\()', mb[heads[ordinal].start():k]))
            ids -= set('while for in loop as self mut let if else true false usize u8 u16 u32 u64 isize i8 i16 i32 i64 len verif_i'.split())
            spec.setdefault('_loop_ids', {})[str(ordinal)] = sorted(ids)
            ins = ''
            if inv.get('spec'):
                # raw loop clauses (invariant_except_break / invariant / ensures), in Verus' order
                ins += '\n' + inv['spec'].rstrip().rstrip(',') + ','
            if inv.get('invariant'):
                ins += '\n        invariant\n' + inv['invariant'].rstrip().rstrip(',') + ','
            if inv.get('decreases'):
                ins += '\n        decreases ' + inv['decreases'].strip().rstrip(',') + ','
            bodyins = ''
            if inv.get('body'):
                bodyins = '\n' + inv['body'].rstrip() + '\n'
            close = match_close(mb, k)
            nxt = mb[close + 1:].lstrip()
            # insert behind the closing brace first, so that `close` stays valid for the body_end insertion
            if inv.get('after'):
                body = body[:close + 1] + '\n' + inv['after'].rstrip() + '\n' + body[close + 1:]
            elif nxt.startswith('{'):
                # Verus' clause parser: a loop body directly followed by another block is ambiguous; an empty statement separates them
                body = body[:close + 1] + ';' + body[close + 1:]
            if inv.get('body_end'):
                body = body[:close] + inv['body_end'].rstrip() + '\n' + body[close:]
            body = body[:k] + ins + '\n      {' + bodyins + body[k + 1:]
    if spec.get('exit'):
        k = body.rstrip().rfind('}')
        body = body[:k] + spec['exit'].rstrip() + '\n' + body[k:]
    if spec.get('entry'):
        body = '{\n' + spec['entry'].rstrip() + '\n' + body[1:]
    return header.rstrip() + ' ' + clauses + body if clauses else header + body


def fn_params(header):
    m = mask_noncode(header)
    o = m.index('(')
    c = match_close(m, o, '(', ')')
    g = re.search(r'\bfn\s+\w+\s*(<[^>(]*>)\s*\(', m)
    return (g.group(1) if g else '') + header[o:c + 1]


# ---------------------------------------------------------------- template processing
DIR_RE = re.compile(r'^\s*//@\s*(.*)$')


class Unit:
    def __init__(self, name):
        self.name = name
        self.text = ''
        self.fns = []        # {'name', 'qual', 'props', 'repo', 'line', 'external', 'vac'}
        self.tags = {}       # literal fn name -> props
        self.notes = []
        self.sources = set()
        self.assumed = []    # external_body functions (assumptions)


def parse_props(tok):
    return [p for p in re.split(r'[,\s]+', tok.strip('[] ')) if p]


def _read_lines(path):
    res = []
    for l in open(path).read().split('\n'):
        m = re.match(r'^\s*//@\s*include\s+(\S+)\s*$', l)
        if m:
            res.extend(_read_lines(os.path.join(os.path.dirname(path), m.group(1))))
        else:
            res.append(l)
    return res


def bit_bridge_lemma(name, body_text, consts=None):
    """R13: for the literal masks and shift counts that occur in a function, the facts that link the bit-level form to the
    arithmetic form (x & 31 == x % 32, x >> 3 == x / 8, (x & 0xff00) >> 8 == x / 256 % 256, ...), for every unsigned type,
    each proved by Verus' bit-vector mode.  Returns (lemma name, lemma text) or None."""
    m = mask_noncode(body_text)
    def lit(v):
        v = v.replace('_', '')
        v = re.sub(r'(u8|u16|u32|u64|usize|i32|i64|isize)$', '', v)
        try:
            return int(v, 16) if v.lower().startswith('0x') else int(v)
        except ValueError:
            return None
    masks = set(); shr = set(); shl = set()
    for mm in re.finditer(r'&=?\s*(0x[0-9a-fA-F_]+\w*|\d[\d_]*\w*)', m):
        v = lit(mm.group(1))
        if v is not None and 0 < v < (1 << 32): masks.add(v)
    for mm in re.finditer(r'(0x[0-9a-fA-F_]+\w*|\d[\d_]*\w*)\s*&(?!&)', m):
        v = lit(mm.group(1))
        if v is not None and 0 < v < (1 << 32): masks.add(v)
    for mm in re.finditer(r'>>=?\s*(\d+)', m):
        shr.add(int(mm.group(1)))
    for mm in re.finditer(r'<<=?\s*(\d+)', m):
        shl.add(int(mm.group(1)))
    # a power-of-two modulus / divisor / factor may have been a mask / shift before (or become one)
    for mm in re.finditer(r'[%/*]=?\s*(0x[0-9a-fA-F_]+\w*|\d[\d_]*\w*)', m):
        v = lit(mm.group(1))
        if v and v > 1 and v & (v - 1) == 0 and v < (1 << 32):
            masks.add(v - 1); shr.add(v.bit_length() - 1); shl.add(v.bit_length() - 1)
    # named constants with a literal value count like literals; their values are stated so that `x & (W - 1)` and `x & 31` unify
    eqs = []
    for cname, cval in sorted((consts or {}).items()):
        if not re.search(r'(?<![A-Za-z0-9_])%s(?![A-Za-z0-9_])' % re.escape(cname), m) or not (0 < cval < (1 << 32)):
            continue
        eqs.append('%s == %d' % (cname, cval))
        if re.search(r'(?<![A-Za-z0-9_])%s\s*-\s*1(?![0-9])' % re.escape(cname), m):
            eqs.append('%s - 1 == %d' % (cname, cval - 1))
        for v in (cval, cval - 1, cval + 1):
            if v > 0 and (v + 1) & v == 0:
                masks.add(v)
        if cval & (cval - 1) == 0 and cval > 1:
            shr.add(cval.bit_length() - 1); shl.add(cval.bit_length() - 1)
        elif cval < 64:
            shr.add(cval); shl.add(cval)
    facts = []
    for (ty, bits) in (('u8', 8), ('u16', 16), ('u32', 32), ('usize', 64)):
        for M in sorted(masks):
            if M >= (1 << bits):
                continue
            if (M + 1) & M == 0:
                facts.append('forall|x: %s| #![trigger x & %d%s] x & %d%s == x %% %d%s' % (ty, M, ty, M, ty, M + 1, ty) if M + 1 < (1 << bits) else
                             'forall|x: %s| #![trigger x & %d%s] x & %d%s == x' % (ty, M, ty, M, ty))
            else:
                tz = (M & -M).bit_length() - 1
                w = M >> tz
                if (w + 1) & w == 0:
                    wd = w + 1
                    facts.append('forall|x: %s| #![trigger x & %d%s] (x & %d%s) >> %d%s == (x / %d%s) %% %d%s && (x & %d%s) %% %d%s == 0'
                                 % (ty, M, ty, M, ty, tz, ty, 1 << tz, ty, wd, ty, M, ty, 1 << tz, ty) if (wd << tz) < (1 << bits) else
                                 'forall|x: %s| #![trigger x & %d%s] (x & %d%s) >> %d%s == x / %d%s && (x & %d%s) %% %d%s == 0'
                                 % (ty, M, ty, M, ty, tz, ty, 1 << tz, ty, M, ty, 1 << tz, ty))
        for K in sorted(shr):
            if 0 < K < bits:
                facts.append('forall|x: %s| #![trigger x >> %d%s] x >> %d%s == x / %d%s' % (ty, K, ty, K, ty, 1 << K, ty))
        for K in sorted(shl):
            if 0 < K < bits:
                facts.append('forall|x: %s| #![trigger x << %d%s] x < %d%s ==> x << %d%s == (x * %d%s) as %s' % (ty, K, ty, 1 << (bits - K), ty, K, ty, 1 << K, ty, ty))
    # truncating casts: (x as u8) is x modulo 256, etc.
    widths = {'u8': 8, 'u16': 16, 'u32': 32, 'usize': 64}
    for U in ('u8', 'u16', 'u32'):
        if not re.search(r'\bas\s+%s\b' % U, m):
            continue
        for T in ('u16', 'u32', 'usize'):
            if widths[T] > widths[U]:
                facts.append('forall|x: %s| #![trigger (x as %s)] (x as %s) as %s == x %% %d%s' % (T, U, U, T, 1 << widths[U], T))
    if not facts:
        return None
    body = '\n'.join('    assert(%s) by (bit_vector);' % f for f in facts)
    ens = ',\n'.join('    ' + f for f in eqs + facts)
    return name, '// ---- R13: bit-vector bridge lemmas (generated)\npub proof fn %s()\n  ensures\n%s,\n{\n%s\n}' % (name, ens, body)


def process_template(path, name=None, auto_bits=()):
    """auto_bits: names of functions that get the bit-vector bridge lemmas (second attempt after a failed proof, see R13)."""
    unit = Unit(name or os.path.splitext(os.path.basename(path))[0])
    unit.auto_lemmas = []
    unit.loop_heads = {}
    lines = _read_lines(path)
    out = []
    i = 0
    impl_ctx = None
    impl_depth = 0
    tdepth = 0
    while i < len(lines):
        line = lines[i]
        dm = DIR_RE.match(line)
        if not dm:
            ml = mask_noncode(line)
            im = re.match(r'^\s*(?:pub\s+)?(?:impl\s+(?:([\w:]+)\s+for\s+)?|trait\s+)(\w+)\s*\{', ml)
            if im and impl_ctx is None:
                impl_ctx = im.group(2)
                impl_depth = tdepth
            tdepth += ml.count('{') - ml.count('}')
            if impl_ctx is not None and tdepth <= impl_depth:
                impl_ctx = None
            out.append(line)
            i += 1
            continue
        d = dm.group(1).strip()
        if d.startswith('tag '):
            _, fname, props = d.split(None, 2)
            unit.tags[fname] = parse_props(props)
            i += 1
            continue
        if d.startswith('assert-no-assign '):
            mm = re.match(r'assert-no-assign\s+(\S+)\s*::\s*(.+?)\s*\|\s*(.*)$', d)
            it = find_item(mm.group(1), mm.group(2).strip())
            bad = assigns_field(it.text, mm.group(3).split())
            if bad:
                raise ExtractError("unsupported construct: %s assigns self.%s (assumed frame contract would be wrong)" % (mm.group(2), bad))
            unit.sources.add(mm.group(1))
            i += 1
            continue
        if d.startswith('assert-absent '):
            mm = re.match(r'assert-absent\s+(\S+)\s*::\s*(.+?)\s*$', d)
            try:
                find_item(mm.group(1), mm.group(2).strip())
            except ExtractError:
                i += 1
                continue
            raise ExtractError("unsupported construct: %s :: %s exists but the unit assumes the inherited default" % (mm.group(1), mm.group(2)))
        if d.startswith('use '):
            dd, _, optstr = d.partition('|')
            mm = re.match(r'use\s+(\S+)\s*::\s*(.+?)\s*$', dd)
            rel, ipath = mm.group(1), mm.group(2).strip()
            opts = optstr.split()
            it = find_item(rel, ipath)
            unit.sources.add(rel)
            feats = [o.split('=')[1] for o in opts if o.startswith('feature=')]
            t = apply_rules(it.text, feats)
            if it.kind in ('struct', 'enum', 'const', 'trait'):
                t = make_pub(t)
            if 'copy' in opts:
                t = '#[derive(Copy, Clone)]\n' + t
            if 'eq' in opts:
                t = '#[derive(PartialEq, Eq, Structural)]\n' + t
            out.append('// ---- extracted from %s:%d (%s)' % (rel, it.line, ipath))
            out.append(t)
            i += 1
            continue
        if d.startswith('fn '):
            dd, _, optstr = d.partition('|')
            mm = re.match(r'fn\s+(\S+)\s*::\s*(.+?)\s*(\[[^\]]*\])?\s*$', dd)
            if not mm:
                raise ExtractError("bad directive: %s" % d)
            rel, ipath = mm.group(1), mm.group(2).strip()
            props = parse_props(mm.group(3)) if mm.group(3) else []
            opts = optstr.split()
            spec = {'loops': {}, 'before': []}
            fname = ipath.split('>')[-1].split()[-1]
            spec['name'] = fname
            spec['external'] = 'external' in opts
            spec['trait_impl'] = 'traitimpl' in opts or 'declonly' in opts
            spec['declonly'] = 'declonly' in opts
            feats = []
            for o in opts:
                if o == 'cfg=jit':
                    feats.append('jit')
            cur = None
            i += 1
            while i < len(lines):
                dm2 = DIR_RE.match(lines[i])
                if dm2:
                    d2 = dm2.group(1).strip()
                    if d2 == 'end':
                        i += 1
                        break
                    if d2.startswith('ret '):
                        spec['ret'] = d2[4:].strip(); cur = None
                    elif d2 in ('requires', 'ensures', 'recommends', 'entry', 'exit'):
                        spec[d2] = ''; cur = (d2,)
                    elif d2.startswith('decreases '):
                        spec['fn_decreases'] = d2[len('decreases '):]; cur = None
                    elif d2.startswith('rename '):
                        spec['rename'] = d2.split()[1]; cur = None
                    elif d2.startswith('loop '):
                        parts = d2.split(None, 3)
                        k = int(parts[1]); what = parts[2]
                        spec['loops'].setdefault(k, {})
                        if what == 'decreases' and len(parts) > 3:
                            spec['loops'][k]['decreases'] = parts[3]; cur = None
                        else:
                            spec['loops'][k][what] = ''; cur = ('loop', k, what)
                    elif d2.startswith('slice '):
                        sm = re.match(r'slice\s+"(.*)"\s*=>\s*"(.*)"\s*\|\s*(.*)$', d2)
                        if not sm:
                            raise ExtractError("bad slice directive: %s" % d2)
                        spec.setdefault('slices', []).append({'header': sm.group(1), 'repl': sm.group(2), 'forbid': sm.group(3).split()})
                        cur = None
                    elif d2.startswith('rewrite '):
                        rm = re.match(r'rewrite\s+"(.*)"\s*=>\s*"(.*)"\s*$', d2)
                        if not rm:
                            raise ExtractError("bad rewrite directive: %s" % d2)
                        spec.setdefault('rewrites', []).append((rm.group(1).replace('\\"', '"'), rm.group(2).replace('\\"', '"')))
                        cur = None
                    elif d2.startswith('closure '):
                        k = int(d2.split()[1])
                        spec.setdefault('closures', {})[k] = ''
                        cur = ('closure', k)
                    elif d2.startswith('slice-range '):
                        sm = re.match(r'slice-range\s+"(.*)"\s*\.\.\s*"(.*)"\s*=>\s*"(.*)"\s*\|\s*(.*)$', d2)
                        if not sm:
                            raise ExtractError("bad slice-range directive: %s" % d2)
                        spec.setdefault('slices', []).append({'start': sm.group(1), 'header': sm.group(2), 'repl': sm.group(3), 'forbid': sm.group(4).split()})
                        cur = None
                    elif d2.startswith('cases '):
                        spec['cases'] = re.findall(r'"([^"]*)"', d2); cur = None
                    elif d2.startswith('before ') or d2.startswith('after ') or d2.startswith('blockend '):
                        bm = re.match(r'(before|after|blockend)\s+(\d+)\s+"(.*)"\s*$', d2)
                        h = {'occ': int(bm.group(2)), 'text': bm.group(3), 'proof': '', 'after': bm.group(1) == 'after', 'blockend': bm.group(1) == 'blockend'}
                        spec['before'].append(h); cur = ('before', h)
                    else:
                        raise ExtractError("bad directive in fn block: %s" % d2)
                else:
                    if cur is None:
                        if lines[i].strip():
                            raise ExtractError("stray text in fn block for %s: %s" % (fname, lines[i]))
                    elif cur[0] == 'loop':
                        spec['loops'][cur[1]][cur[2]] += lines[i] + '\n'
                    elif cur[0] == 'before':
                        cur[1]['proof'] += lines[i] + '\n'
                    elif cur[0] == 'closure':
                        spec['closures'][cur[1]] += lines[i] + '\n'
                    else:
                        spec[cur[0]] += lines[i] + '\n'
                i += 1
            it = find_item(rel, ipath)
            unit.sources.add(rel)
            itext = it.text
            if spec['external'] or spec['declonly']:
                # only the signature is used: the body is dropped (assumed contract / trait declaration)
                mk = mask_noncode(itext)
                itext = itext[:mk.index('{')] + '{ }' if '{' in mk else itext
            for sl in spec.get('slices', []):
                itext = apply_slice(itext, sl, fname)
            for (o, n) in spec.get('rewrites', []):
                # R10: explicit, listed textual rewrite (must match exactly once); reported in the unit notes
                if itext.count(o) != 1:
                    raise ExtractError("lost anchor: rewrite %r in %s" % (o, fname))
                itext = itext.replace(o, n)
                unit.notes.append("R10 rewrite in %s: %r => %r" % (fname, o, n))
            t = apply_rules(itext, feats)
            if spec.get('rename'):
                t = re.sub(r'\bfn\s+%s\b' % re.escape(fname), 'fn ' + spec['rename'], t, count=1)
                fname = spec['rename']
            if fname in auto_bits or (spec.get('rename') or fname) in auto_bits or '*' in auto_bits:
                consts = {}
                for rel2 in sorted(set(list(unit.sources) + [rel])):
                    try:
                        s2, m2 = read_repo(rel2)
                    except Exception:
                        continue
                    for it2 in items_in(s2, m2, 0, len(s2)):
                        if it2.kind == 'const':
                            cm = re.search(r'=\s*(0x[0-9a-fA-F_]+|\d[\d_]*)\s*(?:u8|u16|u32|u64|usize)?\s*;', it2.text)
                            if cm:
                                consts[it2.name] = int(cm.group(1).replace('_', ''), 0)
                lem = bit_bridge_lemma('auto_bits_' + re.sub(r'\W', '_', (impl_ctx or '') + '_' + fname), t + '\n' + '\n'.join(l for l in lines if 'spec fn' in l or not l.lstrip().startswith('//')), consts)
                if lem:
                    unit.auto_lemmas.append(lem[1])
                    call = '    proof { %s(); }\n' % lem[0]
                    spec['entry'] = call + spec.get('entry', '')
                    nl = len(_loop_heads(mask_noncode(t[mask_noncode(t).index('{'):])))
                    for k in range(nl):
                        spec['loops'].setdefault(k, {})
                        spec['loops'][k]['body'] = call + spec['loops'][k].get('body', '')
                    unit.notes.append('R13 bit-vector bridge lemmas added to %s' % fname)
            if spec.get('cases'):
                # R11 case split: one copy of the function per listed match arm; in copy i the other listed arms start with
                # `assume(false)`, i.e. copy i carries exactly the obligations of the paths through arm i (plus everything
                # outside the match). The copies together cover every path, so together they are the proof of the one function.
                import copy as _copy
                cases = spec['cases']
                for ci, arm in enumerate(cases):
                    if t.count(arm) < 1:
                        raise ExtractError("lost anchor: case arm %r in %s" % (arm, fname))
                    sc = _copy.deepcopy(spec)
                    for cj, other in enumerate(cases):
                        if cj != ci:
                            sc['before'].append({'occ': 1, 'text': other, 'after': True, 'blockend': False,
                                                 'proof': '              proof { assume(false); } // R11 case split: this arm is the obligation %s_case%d\n' % (fname, cj)})
                    cname = '%s_case%d' % (fname, ci)
                    tc = re.sub(r'\bfn\s+%s\b' % re.escape(fname), 'fn ' + cname, t, count=1)
                    sc['name'] = cname
                    out.append('// ---- extracted from %s:%d (%s), R11 case %d of %d: arm %s' % (rel, it.line, ipath, ci, len(cases), arm))
                    out.append(splice_fn(tc, sc, unit.notes))
                    if sc.get('_loop_ids'):
                        spec['_loop_ids'] = sc['_loop_ids']
                    qualc = (impl_ctx + '::' + cname) if impl_ctx else cname
                    unit.fns.append({'name': cname, 'qual': qualc, 'props': props, 'repo': '%s:%d %s' % (rel, it.line, qualc),
                                     'external': False, 'path': ipath})
                unit.notes.append("R11 case split of %s over %d match arms (each copy assumes the other arms away; together they cover all paths)" % (fname, len(cases)))
                rec = None
            else:
                text = splice_fn(t, spec, unit.notes)
                out.append('// ---- extracted from %s:%d (%s)' % (rel, it.line, ipath))
                out.append(text)
            if spec.get('_loop_ids'):
                unit.loop_heads[fname] = spec['_loop_ids']
            qual = (impl_ctx + '::' + fname) if impl_ctx else fname
            if not spec.get('cases'):
                rec = {'name': fname, 'qual': qual, 'props': props, 'repo': '%s:%d %s' % (rel, it.line, qual),
                       'external': spec['external'], 'path': ipath}
                unit.fns.append(rec)
            else:
                rec = unit.fns[-1]
            if spec['declonly']:
                rec['external'] = True
            if spec['external']:
                unit.assumed.append('%s (%s) external_body with assumed contract' % (qual, rec['repo']))
            # vacuity probe
            if spec.get('requires') and not spec['external'] and not spec['declonly'] and 'novac' not in opts:
                mh = mask_noncode(t)
                header = t[:mh.index('{')]
                params = fn_params(header)
                vname = 'vac_' + (impl_ctx.lower() + '_' if impl_ctx else '') + fname
                req = spec['requires'].rstrip().rstrip(',')
                out.append('#[allow(unused_variables)] pub fn %s%s\n    requires\n%s,\n  { assert(false); }' % (vname, params, req))
                rec['vac'] = vname
            continue
        if d.startswith('#') or d == '':
            i += 1
            continue
        raise ExtractError("unknown directive: %s" % d)
    text = '\n'.join(out)
    # R12: module-level constants of the source files that the extracted code mentions but the template does not list are
    # extracted too (a literal replaced by a named constant of the same value must not break the extraction)
    mt = mask_noncode(text)
    added = []
    for rel in sorted(unit.sources):
        try:
            src, masked = read_repo(rel)
        except Exception:
            continue
        for it in items_in(src, masked, 0, len(src)):
            if it.kind != 'const' or not it.name or not re.match(r'^[A-Z][A-Z0-9_]*$', it.name):
                continue
            if not re.search(r'(?<![A-Za-z0-9_])%s(?![A-Za-z0-9_])' % re.escape(it.name), mt):
                continue
            if re.search(r'\bconst\s+%s\b' % re.escape(it.name), mt) or it.name in [a for a, _ in added]:
                continue
            ctext = re.sub(r'^(\s*)(?:pub(?:\([^)]*\))?\s+)?const\b', r'\1pub const', it.text.strip(), count=1)
            if not ctext.rstrip().endswith(';'):
                continue
            added.append((it.name, '// ---- R12: constant extracted from %s:%d\n%s' % (rel, it.line, ctext)))
    if added:
        k = text.find('verus! {')
        k = text.find('\n', k) + 1 if k >= 0 else 0
        text = text[:k] + '\n'.join(c for _, c in added) + '\n' + text[k:]
        unit.notes.append('R12 constants extracted automatically: ' + ', '.join(n for n, _ in added))
    if unit.auto_lemmas:
        k = text.find('verus! {')
        k = text.find('\n', k) + 1 if k >= 0 else 0
        text = text[:k] + '\n'.join(unit.auto_lemmas) + '\n' + text[k:]
    unit.text = text
    return unit


if __name__ == '__main__':
    import sys
    u = process_template(sys.argv[1], auto_bits=tuple(os.environ.get('VERIF_AUTOBITS', '').split(',')) if os.environ.get('VERIF_AUTOBITS') else ())
    sys.stdout.write(u.text)
    sys.stderr.write(json.dumps({'fns': u.fns, 'notes': u.notes}, indent=1) + '\n')
