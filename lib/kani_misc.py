"""Small Kani harness families (kani/src/misc.rs).  Every harness name carries the property it serves in its check
messages; `bounded` harnesses are reported under coverage.bounded and never counted as proved."""
import re
from . import kani_run

GROUPS = {
    # group: (harness names, per-harness timeout, fast flags?, bound description or None)
    'serial': (['serial_set_control'], 600, False, None),
    'header': (['header_checksum', 'header_size_tables', 'header_cart_type_supported', 'header_cart_type_unsupported'], 900, False, None),
    'leaf': (['leaf_interleave'], 900, False, None),
    'strs': (['strs_parse_address_hex', 'strs_parse_address_dec', 'strs_parse_address_unicode'], 1800, False, 'ASCII tokens of at most 6 bytes (value); arbitrary UTF-8 tokens of at most 5 bytes (totality)'),
    'irq': (['irq_dispatch'], 1800, False, None),
    'joypad': (['joypad_twin'], 900, False, None),
    'objline': (['leaf_object_line', 'leaf_object_limit'], 2400, False, 'one scan line; A: 3 symbolic OAM entries with concrete tiles (others off-line); B: 11 entries on/off with symbolic X sharing one opaque tile'),
    'cmdline': (['strs_parse_command_total'], 3600, False, 'UTF-8 lines of at most 4 bytes'),
}
KANI_FILES = ['main.rs', 'misc.rs']
REPO_FILES = {
    'serial': ['src/devices/serial.rs'],
    'header': ['src/cart.rs'],
    'leaf': ['src/devices/video/tile.rs'],
    'strs': ['src/debug/command.rs'],
    'joypad': ['src/devices/joypad.rs', 'src/devices/interrupts.rs'],
    'objline': ['src/devices/video/mod.rs', 'src/devices/video/tile.rs'],
    'cmdline': ['src/debug/command.rs'],
    'irq': ['src/emulator.rs', 'src/devices/io.rs', 'src/devices/interrupts.rs', 'src/cpu.rs'],
}


def run(prop, group, tier, seed, Ob):
    names, timeout, fast, bound = GROUPS[group]
    kani_run.GROUP_FILES['h_misc'] = REPO_FILES[group]
    kani_run.KANI_FILES['h_misc'] = KANI_FILES
    results, info = kani_run.run_harnesses('misc_' + group, 'h_misc', names, timeout, fast=fast, module='misc')
    obs = kani_run._obligations(prop, 'misc', names, results, Ob)
    for o in obs:
        if bound:
            o.bounded = bound
    if group == 'irq':
        import json, subprocess
        todo = [o for o in obs if o.verdict == 'refuted'][:2]
        if todo:
            exe, err = kani_run.native_build()
            for o in todo:
                if exe is None:
                    o.detail += '\n[no native replay: replay binary did not build: %s]' % (err or '')[-300:]
                    continue
                vals, err2 = kani_run.playback('h_misc', 'misc::harnesses::irq_dispatch', fast=False)
                if vals is None:
                    o.detail += '\n[playback: %s]' % err2
                    continue
                args = [exe, 'replay-irq'] + vals[:11]
                p = subprocess.run(args, capture_output=True, text=True)
                try:
                    rep = json.loads(p.stdout.strip().splitlines()[-1])
                except Exception:
                    rep = {'error': 'replay output not understood (exit %s)' % p.returncode, 'stderr': p.stderr[-400:]}
                rep['inputs_in_kani_any_order'] = vals[:11]
                rep['command'] = 'build/kani/target/debug/gbverif ' + ' '.join(args[1:])
                rep['confirmed_on_real_code'] = bool(rep.get('failed_checks'))
                if rep['confirmed_on_real_code']:
                    o.replay = rep
                else:
                    o.detail += '\n[native replay on a real core did not reproduce: %s]' % json.dumps(rep)[:600]
    if group in ('serial', 'strs'):
        import json, subprocess
        todo = [o for o in obs if o.verdict == 'refuted'][:2]
        if todo:
            exe, err = kani_run.native_build()
            for o in todo:
                hn = re.match(r'kani:misc::(\w+)\[', o.name).group(1)
                if exe is None:
                    o.detail += '\n[no native replay: replay binary did not build: %s]' % (err or '')[-300:]
                    continue
                vals, err2 = kani_run.playback('h_misc', 'misc::harnesses::' + hn, fast=False)
                if vals is None:
                    o.detail += '\n[playback: %s]' % err2
                    continue
                if group == 'serial':
                    args = [exe, 'replay-serial'] + [str(int(x, 16)) for x in vals[:4]]
                else:
                    n = {'strs_parse_address_hex': 6, 'strs_parse_address_dec': 6, 'strs_parse_address_unicode': 5}[hn]
                    raw = bytes.fromhex(vals[0])[:n]; ln = min(int.from_bytes(bytes.fromhex(vals[1]), 'little'), n)
                    args = [exe, 'replay-strs', raw[:ln].hex()]
                p = subprocess.run(args, capture_output=True, text=True)
                try:
                    rep = json.loads(p.stdout.strip().splitlines()[-1])
                except Exception:
                    rep = {'error': 'replay output not understood (exit %s)' % p.returncode, 'stderr': p.stderr[-400:]}
                rep['inputs_in_kani_any_order'] = vals[:4]
                rep['command'] = 'build/kani/target/debug/gbverif ' + ' '.join(args[1:])
                rep['confirmed_on_real_code'] = bool(rep.get('failed_checks'))
                if rep['confirmed_on_real_code']:
                    o.replay = rep
                elif 'text formatting' in o.reason and not rep.get('error'):
                    # the formatting stub over-approximates: only the real stream decides
                    o.verdict = 'undecided'
                    o.reason += ' [native replay on the real stream did not reproduce a wrong byte: ' + json.dumps(rep)[:300] + ']'
                else:
                    o.detail += '\n[native replay did not reproduce: %s]' % json.dumps(rep)[:600]
    info['unit'] = 'kani:misc:' + group
    info['status'] = 'ok' if not info.get('compile_error') else 'compile-error'
    info.setdefault('assumptions', [])
    if info.get('compile_error'):
        o = Ob('kani:misc::<crate>', 'kani/cbmc', 'unit'); o.verdict = 'undecided'; o.reason = '; '.join(info['notes'])
        obs = [o]
    return obs, info
