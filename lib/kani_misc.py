"""Small Kani harness families (kani/src/misc.rs).  Every harness name carries the property it serves in its check
messages; `bounded` harnesses are reported under coverage.bounded and never counted as proved."""
import re
from . import kani_run

GROUPS = {
    # group: (harness names, per-harness timeout, fast flags?, bound description or None)
    'serial': (['serial_set_control'], 600, False, None),
    'header': (['header_checksum', 'header_size_tables', 'header_cart_type_supported', 'header_cart_type_unsupported'], 900, False, None),
    'leaf': (['leaf_interleave'], 900, False, None),
    'strs': (['strs_parse_address_hex', 'strs_parse_address_dec'], 1800, False, 'ASCII tokens of at most 6 bytes'),
}
KANI_FILES = ['main.rs', 'misc.rs']
REPO_FILES = {
    'serial': ['src/devices/serial.rs'],
    'header': ['src/cart.rs'],
    'leaf': ['src/devices/video/tile.rs'],
    'strs': ['src/debug/command.rs'],
}


def run(prop, group, tier, seed, Ob):
    names, timeout, fast, bound = GROUPS[group]
    kani_run.GROUP_FILES['h_misc'] = REPO_FILES[group]
    kani_run.KANI_FILES['h_misc'] = KANI_FILES
    results, info = kani_run.run_harnesses('misc_' + group, 'h_misc', names, timeout, fast=fast, module='misc')
    obs = kani_run._obligations(prop, 'misc', names, results, Ob)
    for o in obs:
        if bound:
            o.bounded = bound
    info['unit'] = 'kani:misc:' + group
    info['status'] = 'ok' if not info.get('compile_error') else 'compile-error'
    info.setdefault('assumptions', [])
    if info.get('compile_error'):
        o = Ob('kani:misc::<crate>', 'kani/cbmc', 'unit'); o.verdict = 'undecided'; o.reason = '; '.join(info['notes'])
        obs = [o]
    return obs, info
