"""Kani engine: builds the wrapper crate against the current /repo tree, generates the harness files, runs the selected
harnesses in parallel, attributes every result block to its harness and caches per-harness verdicts keyed by the
SHA-256 of everything the run depends on."""
import os, re, json, time, hashlib, subprocess, shutil, glob
from . import vx

ROOT = os.path.dirname(os.path.dirname(os.path.abspath(__file__)))
BUILD = os.path.join(ROOT, 'build')
KDIR = os.path.join(BUILD, 'kani')
CACHE = os.path.join(BUILD, 'cache')
NPROC = int(os.environ.get('VERIF_JOBS', '16'))

UNDEFINED = [0xd3, 0xdb, 0xdd, 0xe3, 0xe4, 0xeb, 0xec, 0xed, 0xf4, 0xfc, 0xfd]
STUBS = '#[kani::stub(crate::mem::memory_read_byte, stub_read)] #[kani::stub(crate::mem::memory_write_byte, stub_write)]'
FAST = ['-Z', 'unstable-options', '--no-memory-safety-checks', '--no-assertion-reach-checks']


def repo():
    return os.environ.get('VERIF_REPO', '/repo')


def encodings():
    r = [(b, None) for b in range(256) if b != 0xcb and b not in UNDEFINED]
    r += [(0xcb, c) for c in range(256)]
    return r


def enc_name(prefix, b0, cb):
    return '%s_%02x' % (prefix, b0) if cb is None else '%s_cb_%02x' % (prefix, cb)


GROUP_FILES = {
    # repository files reachable from the harnesses of each family (anything else cannot change their verdicts)
    'h_isa': ['src/decoder/mod.rs', 'src/decoder/ops.rs', 'src/interpreter/mod.rs', 'src/cpu.rs', 'src/mem.rs'],
    'h_jit': ['src/decoder/mod.rs', 'src/decoder/ops.rs', 'src/interpreter/mod.rs', 'src/cpu.rs', 'src/mem.rs', 'src/emitter/mod.rs', 'src/emitter/x86_64.rs'],
}


KANI_FILES = {
    'h_isa': ['main.rs', 'isa.rs', 'sm83.rs', 'bus.rs', 'src_any.rs'],
    'h_jit': ['main.rs', 'jit.rs', 'x86.rs', 'bus.rs', 'src_any.rs'],
}


def source_key(extra=''):
    h = hashlib.sha256()
    if extra in GROUP_FILES:
        files = [os.path.join(repo(), f) for f in GROUP_FILES[extra]]
    else:
        files = sorted(glob.glob(os.path.join(repo(), 'src', '**', '*.rs'), recursive=True))
    ks = KANI_FILES.get(extra)
    if ks is None:
        files += sorted(glob.glob(os.path.join(ROOT, 'kani', 'src', '*.rs')))
    else:
        files += [os.path.join(ROOT, 'kani', 'src', f) for f in ks]
    files += [os.path.join(ROOT, 'kani', 'Cargo.toml')]
    gen = os.path.join(KDIR, 'gen', extra[2:] + '_gen.rs')
    if os.path.exists(gen):
        files.append(gen)
    for f in files:
        h.update(f.encode()); h.update(open(f, 'rb').read())
    h.update(extra.encode())
    return h.hexdigest()[:20]


def prepare():
    """Copy the crate template to build/kani with the repository path substituted."""
    os.makedirs(KDIR, exist_ok=True)
    os.makedirs(os.path.join(KDIR, 'gen'), exist_ok=True)
    os.makedirs(os.path.join(KDIR, 'src'), exist_ok=True)
    os.makedirs(os.path.join(KDIR, '.cargo'), exist_ok=True)
    src = os.path.join(ROOT, 'kani')

    def put(rel, text=None):
        dst = os.path.join(KDIR, rel)
        data = text if text is not None else open(os.path.join(src, rel)).read()
        if not os.path.exists(dst) or open(dst).read() != data:
            open(dst, 'w').write(data)
    for f in os.listdir(os.path.join(src, 'src')):
        if f.endswith('.rs'):
            t = open(os.path.join(src, 'src', f)).read()
            put(os.path.join('src', f), t.replace('@REPO@', repo()))
    put('Cargo.toml'); put('Cargo.lock'); put(os.path.join('.cargo', 'config.toml'))
    for g in ('isa_gen.rs', 'jit_gen.rs', 'misc_gen.rs'):
        p = os.path.join(KDIR, 'gen', g)
        if not os.path.exists(p):
            open(p, 'w').write('')


def write_gen(name, text):
    p = os.path.join(KDIR, 'gen', name)
    if not os.path.exists(p) or open(p).read() != text:
        open(p, 'w').write(text)


def gen_isa():
    out = []
    for (b0, cb) in encodings():
        n = enc_name('i', b0, cb)
        if cb is None:
            out.append('#[kani::proof] #[kani::unwind(6)] %s\nfn %s() { run([0x%02x, 0, 0], [true, true]); }' % (STUBS, n, b0))
        else:
            out.append('#[kani::proof] #[kani::unwind(6)] %s\nfn %s() { run([0xcb, 0x%02x, 0], [false, true]); }' % (STUBS, n, cb))
    for b0 in UNDEFINED:
        out.append('#[kani::proof]\nfn u_%02x() { assert!(check_undefined(0x%02x), "C06: undefined opcode decodes to Invalid"); }' % (b0, b0))
        out.append('#[kani::proof] #[kani::should_panic] %s\nfn up_%02x() { let _ = check_interp([0x%02x, 0, 0], [true, true], &mut crate::src_any::K); }' % (STUBS, b0, b0))
    write_gen('isa_gen.rs', '\n'.join(out) + '\n')


def native_build():
    env = dict(os.environ, CARGO_NET_OFFLINE='true')
    p = subprocess.run(['cargo', 'build', '--offline', '--quiet'], cwd=KDIR, capture_output=True, text=True, env=env)
    if p.returncode != 0:
        return None, p.stderr[-3000:]
    return os.path.join(KDIR, 'target', 'debug', 'gbverif'), ''


TAGS = {'rb': 0xF1F1F1F1F1F1F101, 'wb': 0xF1F1F1F1F1F1F102, 'ww': 0xF1F1F1F1F1F1F103, 'rw': 0xF1F1F1F1F1F1F104, 'pw': 0xF1F1F1F1F1F1F105}
FN_NAMES = {'rb': 'crate::mem::memory_read_byte', 'wb': 'crate::mem::memory_write_byte', 'ww': 'crate::mem::memory_write_word', 'rw': 'crate::mem::memory_read_word', 'pw': 'crate::mem::memory_push_word'}


def gen_jit():
    """Derive the per-encoding templates by running the REAL emitter natively on six immediate probes and classifying
    every byte; returns (ok, note).  A byte that fits no class makes the encoding 'unclassified' (undecided)."""
    exe, err = native_build()
    if exe is None:
        return False, 'native build failed: ' + err, {}
    p = subprocess.run([exe, 'tmpl-all'], capture_output=True, text=True)
    if p.returncode != 0:
        return False, 'tmpl-all failed: ' + p.stderr[-2000:], {}
    lines = p.stdout.splitlines()
    fn = dict((k, int(v, 16)) for k, v in re.findall(r'(\w+)=([0-9a-f]+)', lines[0]))
    per = {}
    frame = {}
    for l in lines[1:]:
        if l.startswith('frame '):
            _, which, hx = l.split()
            frame[which] = [int(hx[i:i + 2], 16) for i in range(0, len(hx), 2)]
            continue
        _, b0, cb, x, y, hx = l.split()
        key = (int(b0, 16), None if cb == '-' else int(cb, 16))
        per.setdefault(key, []).append(((int(x, 16), int(y, 16)), [int(hx[i:i + 2], 16) for i in range(0, len(hx), 2)]))
    out = []
    info = {}

    def derive(name, b0, cb, outs, guard=None, fn=fn):
        """One harness from the emitter's output on a set of immediate probes (all of the same length)."""
        L = len(outs[0][1])
        tc = []; te = []; free = []
        i = 0
        bad = None
        while i < L:
            hit = None
            for k, v in fn.items():
                if i + 8 <= L and outs[0][1][i:i + 8] == list(v.to_bytes(8, 'little')):
                    hit = k
            if hit:
                for k in range(8):
                    tc.append('fnb(%s as usize as u64, %d)' % (FN_NAMES[hit], k))
                    te.append('0x%02x' % ((TAGS[hit] >> (8 * k)) & 0xff))
                i += 8
                continue
            col = [o[1][i] for o in outs]
            if len(set(col)) == 1:
                tc.append('0x%02x' % col[0]); te.append('0x%02x' % col[0])
            else:
                cands = [('b1', lambda pr: pr[0]), ('b2', lambda pr: pr[1]), ('!b1', lambda pr: pr[0] ^ 0xff), ('!b2', lambda pr: pr[1] ^ 0xff)]
                ok = [n for n, f in cands if all(f(o[0]) == o[1][i] for o in outs) and not (cb is not None and 'b1' in n)]
                if not ok:
                    # not an affine function of the immediates: leave it to the real emitter under CBMC (see jit.rs `free`)
                    free.append(i)
                    if len(free) > 2:
                        bad = 'more than two bytes that are not affine in the immediates (first at %d)' % free[0]
                        break
                    tc.append('0x00'); te.append('0x00')
                else:
                    tc.append(ok[0]); te.append(ok[0])
            i += 1
        if bad:
            return None, bad
        pos = [k for k, e in enumerate(te) if e in ('b1', 'b2', '!b1', '!b2')]
        if len(pos) > 4:
            return None, 'more than 4 immediate bytes'
        table = ['(%d, %s)' % (k, te[k]) for k in pos] + ['(usize::MAX, 0)'] * (4 - len(pos))
        te2 = [('0x00' if k in pos else e) for k, e in enumerate(te)]
        steps = 120
        unw = max(L, steps) + 10
        b1 = ('0x%02x' % cb) if cb is not None else 'kani::any()'
        g = ('  kani::assume(%s);\n' % guard) if guard else ''
        txt = ('#[kani::proof] #[kani::unwind(%d)] %s\nfn %s() { let b1: u8 = %s; let b2: u8 = kani::any();\n%s'
               '  let t: [u8; %d] = [%s];\n  let te: [u8; %d] = [%s];\n  run([0x%02x, b1, b2], &t, &te, %d, %d, [%s], [%s]); }'
               % (unw, STUBS, name, b1, g, L, ', '.join(tc), L, ', '.join(te2), b0, L, steps, ', '.join(table),
                  ', '.join([str(f) for f in free] + ['usize::MAX'] * (2 - len(free)))))
        return txt, 'ok len=%d' % L + (' free=%s' % free if free else '')

    def parse_t(lines_):
        r = []
        for l in lines_:
            if not l.startswith('t '):
                continue
            _, _b0, _cb, x, y, hx = l.split()
            r.append(((int(x, 16), int(y, 16)), [int(hx[i:i + 2], 16) for i in range(0, len(hx), 2)]))
        return r

    for (b0, cb) in encodings():
        outs = per[(b0, cb)]
        name = enc_name('j', b0, cb)
        L = len(outs[0][1])
        if any(len(o[1]) != L for o in outs):
            # The emitter specialises on the immediate: split the immediate range into the (few) intervals of equal code
            # length, found by running the real emitter natively on all 65536 immediates, and derive one harness per interval.
            if cb is not None:
                info[name] = 'template length varies with immediates'
                continue
            pl = subprocess.run([exe, 'tmpl-lens', '%02x' % b0], capture_output=True, text=True)
            runs = [tuple(int(v) for v in l.split()[1:]) for l in pl.stdout.splitlines() if l.startswith('r ')]
            if pl.returncode != 0 or not runs or len(runs) > 4:
                info[name] = 'template length varies with immediates (%d intervals)' % len(runs)
                continue
            sub = []
            for k, (lo, hi, _l) in enumerate(runs):
                span = hi - lo
                ws = sorted(set([lo, hi, lo + span // 2, lo + span // 3, lo + (2 * span) // 3, lo + (span * 5) // 7, lo + (span * 2) // 11, lo + min(span, 0x155), lo + min(span, 0x2aa)]))
                pp = subprocess.run([exe, 'tmpl-probe', '%02x' % b0] + [str(w) for w in ws], capture_output=True, text=True)
                o2 = parse_t(pp.stdout.splitlines())
                fn2 = dict((k, int(v, 16)) for k, v in re.findall(r'(\w+)=([0-9a-f]+)', pp.stdout.splitlines()[0])) if pp.stdout.startswith('fn ') else fn
                if pp.returncode != 0 or not o2 or any(len(o[1]) != len(o2[0][1]) for o in o2):
                    sub = None
                    break
                guard = '(((b2 as u32) << 8) | b1 as u32) >= %d && (((b2 as u32) << 8) | b1 as u32) <= %d' % (lo, hi)
                txt, note = derive('%s_k%d' % (name, k), b0, cb, o2, guard, fn2)
                if txt is None:
                    sub = None
                    info[name] = note
                    break
                sub.append(('%s_k%d' % (name, k), txt, note + ' imm in [%d, %d]' % (lo, hi)))
            if not sub:
                info.setdefault(name, 'template length varies with immediates')
                continue
            for (n2, txt, note) in sub:
                out.append(txt); info[n2] = note
            info[name] = 'split ' + ','.join(n2 for (n2, _, _) in sub)
            continue
        txt, note = derive(name, b0, cb, outs)
        if txt is None:
            info[name] = note
            continue
        out.append(txt)
        info[name] = note
    if all(k in frame for k in ('pre', 'epi', 'bepi')):
        arr = lambda bs: '[' + ', '.join('0x%02x' % b for b in bs) + ']'
        out.append('#[kani::proof] #[kani::unwind(130)]\nfn j_frame() {\n  let pre: [u8; %d] = %s;\n  let epi: [u8; %d] = %s;\n  let bepi: [u8; %d] = %s;\n'
                   '  run_frame(&pre, %d, &epi, %d, &bepi, %d); }'
                   % (len(frame['pre']), arr(frame['pre']), len(frame['epi']), arr(frame['epi']), len(frame['bepi']), arr(frame['bepi']),
                      len(frame['pre']), len(frame['epi']), len(frame['bepi'])))
        info['j_frame'] = 'ok'
    write_gen('jit_gen.rs', '\n'.join(out) + '\n')
    return True, '', info


class HResult:
    def __init__(self, name):
        self.name = name
        self.status = 'missing'     # success | failed | missing | timeout
        self.failed = []            # [(description, location)]
        self.time_s = 0.0
        self.cover_ok = None
        self.raw = ''


def parse_terse(text, names):
    res = dict((n, HResult(n)) for n in names)
    cur_by_thread = {}
    lines = text.split('\n')
    i = 0
    short = dict((n.split('::')[-1], n) for n in names)
    last_thread = None
    block = None
    single = None
    while i < len(lines):
        l = lines[i]
        m = re.match(r'^(?:Thread (\d+): )?Checking harness ([\w:]+)\.\.\.', l)
        if m:
            nm = m.group(2)
            key = nm if nm in res else short.get(nm.split('::')[-1])
            if m.group(1) is not None:
                cur_by_thread[m.group(1)] = key
            else:
                single = key
            i += 1
            continue
        m = re.match(r'^Thread (\d+):\s*$', l)
        if m:
            last_thread = m.group(1)
            i += 1
            continue
        if l.startswith('CBMC failed') or l.startswith('CBMC timed out'):
            key = cur_by_thread.get(last_thread) if last_thread is not None else single
            if key and key in res and res[key].status == 'missing':
                res[key].status = 'timeout'
                res[key].raw = '\n'.join(lines[i:i + 4])
            i += 1
            continue
        if l.startswith('VERIFICATION RESULT:'):
            key = cur_by_thread.get(last_thread) if last_thread is not None else single
            j = i
            blk = []
            while j < len(lines) and not lines[j].startswith('Verification Time:') and not re.match(r'^Thread \d+: Checking', lines[j]):
                blk.append(lines[j]); j += 1
            if j < len(lines) and lines[j].startswith('Verification Time:'):
                blk.append(lines[j]); j += 1
            b = '\n'.join(blk)
            if key and key in res:
                r = res[key]
                r.raw = b
                if 'VERIFICATION:- SUCCESSFUL' in b:
                    r.status = 'success'
                elif 'VERIFICATION:- FAILED' in b:
                    r.status = 'failed'
                for fm in re.finditer(r'Failed Checks: (.*)\n File: "([^"]*)", line (\d+), in (\S+)', b):
                    r.failed.append((fm.group(1).strip().strip('"'), '%s:%s in %s' % (fm.group(2), fm.group(3), fm.group(4))))
                for fm in re.finditer(r'Failed Checks: (.*)\n(?! File:)', b):
                    r.failed.append((fm.group(1).strip().strip('"'), ''))
                tm = re.search(r'Verification Time: ([0-9.]+)s', b)
                if tm:
                    r.time_s = float(tm.group(1))
                cm = re.search(r'\*\* (\d+) of (\d+) cover properties satisfied', b)
                if cm:
                    r.cover_ok = cm.group(1) == cm.group(2)
                if 'CBMC timed out' in b or 'timed out' in b.lower():
                    r.status = 'timeout'
                if 'should_panic' in b or 'encountered one or more panics as expected' in b:
                    pass
            last_thread = None
            i = j
            continue
        i += 1
    return res


def load_cache(group, key):
    p = os.path.join(CACHE, 'kani_%s_%s.json' % (group, key))
    try:
        return json.load(open(p)), p
    except Exception:
        return {}, p


def run_harnesses(group, feature, names, timeout_s, extra_flags=(), fast=True, module=None, jobs=None):
    """names: harness function names inside module `<module>::harnesses`.  Returns {name: dict}, info."""
    os.makedirs(CACHE, exist_ok=True)
    key = source_key(feature)
    cache, cpath = load_cache(group, key)
    todo = [n for n in names if n not in cache or cache[n]['status'] in ('missing',)]
    info = {'engine': 'kani:' + group, 'key': key, 'cached': len(names) - len(todo), 'ran': len(todo), 'wall_s': 0.0, 'cmd': '', 'notes': []}
    base = ['cargo', 'kani', '--features', feature, '-Z', 'stubbing'] + (FAST if fast else ['-Z', 'unstable-options']) + list(extra_flags) + \
           ['-j', str(jobs or NPROC), '--output-format=terse', '--harness-timeout', '%ds' % timeout_s, '--exact']
    info['cmd'] = '(cd build/kani && ' + ' '.join(base) + ' --harness <%d harnesses of %s::harnesses>)' % (len(names), module or group)
    if len(names) - len(todo):
        info['notes'].append('%d of %d harness verdicts reused from the cache (same sources, key %s)' % (len(names) - len(todo), len(names), key))
    if todo:
        full = ['%s::harnesses::%s' % (module or group, n) for n in todo]
        cmd = list(base)
        for f in full:
            cmd += ['--harness', f]
        env = dict(os.environ, CARGO_NET_OFFLINE='true', RUSTFLAGS=(os.environ.get('RUSTFLAGS', '') + ' --cfg gb_dynarec_verif').strip())
        t0 = time.time()
        logp = os.path.join(BUILD, 'kani_%s.log' % group)
        with open(logp, 'w') as lf:
            p = subprocess.run(cmd, cwd=KDIR, stdout=lf, stderr=subprocess.STDOUT, env=env)
        info['wall_s'] = time.time() - t0
        text = open(logp).read()
        if 'error: could not compile' in text or re.search(r'^error(\[E\d+\])?:', text, re.M) and 'Checking harness' not in text:
            info['notes'].append('harness crate failed to compile: ' + '\n'.join(re.findall(r'^error.*$', text, re.M)[:5]))
            info['compile_error'] = True
            return {}, info
        res = parse_terse(text, full)
        for n, f in zip(todo, full):
            r = res[f]
            cache[n] = {'status': r.status, 'failed': r.failed, 'time_s': r.time_s, 'cover_ok': r.cover_ok, 'raw': r.raw[-1500:] if r.status != 'success' else ''}
        json.dump(cache, open(cpath, 'w'))
    return dict((n, cache.get(n, {'status': 'missing', 'failed': [], 'time_s': 0, 'cover_ok': None, 'raw': ''})) for n in names), info


def playback(feature, full_name, timeout_s=600, fast=True):
    """Re-run one failing harness with concrete playback and return the ordered kani::any() values (hex strings)."""
    cmd = ['cargo', 'kani', '--features', feature, '-Z', 'stubbing', '-Z', 'concrete-playback', '--concrete-playback=print'] + (FAST if fast else ['-Z', 'unstable-options']) + \
          ['--harness-timeout', '%ds' % timeout_s, '--exact', '--harness', full_name]
    env = dict(os.environ, CARGO_NET_OFFLINE='true', RUSTFLAGS=(os.environ.get('RUSTFLAGS', '') + ' --cfg gb_dynarec_verif').strip())
    try:
        p = subprocess.run(cmd, cwd=KDIR, capture_output=True, text=True, env=env, timeout=timeout_s + 300)
    except subprocess.TimeoutExpired:
        return None, 'playback timed out'
    text = p.stdout
    # one generated test per failed check (and one for the reachability cover): take the first ASSERTION witness
    best = None
    for bm in re.finditer(r'Check for `(\w+)`: "+([^"\n]*)"+.*?let concrete_vals: Vec<Vec<u8>> = vec!\[(.*?)\];', text, re.S):
        if bm.group(1) != 'assertion':
            continue
        vals = []
        for vm in re.finditer(r'vec!\[([^\]]*)\]', bm.group(3)):
            bs = [int(x) for x in re.findall(r'\d+', vm.group(1))]
            vals.append(''.join('%02x' % b for b in bs))
        best = vals
        break
    if best is None:
        return None, 'no concrete values for a failed assertion in the output'
    return best, ''


# ---------------------------------------------------------------------------------------------------------------------
# property-level groups
def quick_subset(seed):
    """Deterministic stratified subset of the 500 encodings (the seed only rotates the register representative)."""
    sel = []
    for (b0, cb) in encodings():
        if cb is None:
            x, y, z = b0 >> 6, (b0 >> 3) & 7, b0 & 7
            if x == 0 or x == 3:
                sel.append((b0, cb))
            elif z == 6 or (x == 1 and y == 6):
                sel.append((b0, cb))
            elif z == (seed + y + x) % 8 or (z == 7 and (seed + y + x) % 8 == 6):
                sel.append((b0, cb))
        else:
            x, y, z = cb >> 6, (cb >> 3) & 7, cb & 7
            rep = (seed + y + x) % 8
            if rep == 6:
                rep = 7
            if z == 6 or z == rep:
                sel.append((b0, cb))
    return sel


def run_group(prop, group, tier, seed):
    from .driver import Ob
    prepare()
    if group == 'isa':
        return _run_isa(prop, tier, seed, Ob)
    if group == 'jit':
        return _run_jit(prop, tier, seed, Ob)
    if group == 'jit:frame':
        return _run_jit(prop, tier, seed, Ob, only_frame=True)
    if group.startswith('misc:'):
        from . import kani_misc
        return kani_misc.run(prop, group[5:], tier, seed, Ob)
    raise ValueError(group)


def _attribute(prop, desc):
    """Does a failed check belong to `prop`?  Named checks carry their property; automatic checks of the repository
    code (overflow, bounds, panics) belong to every property of the group."""
    m = re.match(r'^((?:C\d\d,?)+):', desc)
    if m:
        from . import registry
        mine = [prop] + registry.PROPS.get(prop, {}).get('also_counts', [])
        return any(q in m.group(1).split(',') for q in mine)
    from . import registry
    return not registry.PROPS.get(prop, {}).get('named_only')


def _obligations(prop, group, names, results, Ob, replay_fn=None, feature=None, module=None):
    obs = []
    for n in names:
        r = results.get(n, {'status': 'missing', 'failed': [], 'time_s': 0, 'cover_ok': None, 'raw': ''})
        o = Ob('kani:%s::%s[%s]' % (group, n, prop), 'kani/cbmc', 'harness')
        o.time_s = r.get('time_s', 0) or 0
        mine = [(d, loc) for (d, loc) in r.get('failed', []) if _attribute(prop, d)]
        if r['status'] == 'success':
            o.verdict = 'discharged' if r.get('cover_ok') is not False else 'undecided'
            if o.verdict == 'undecided':
                o.reason = 'vacuity guard: reachability cover not satisfied'
        elif r['status'] == 'failed':
            real = [(d, loc) for (d, loc) in mine if 'unwinding assertion' not in d and 'unsupported' not in d.lower()]
            if not mine:
                o.verdict = 'discharged'        # the harness failed only on checks that belong to the sibling property
            elif len(real) == len(mine):
                o.verdict = 'refuted'
                o.reason = '; '.join(sorted(set(d for d, _ in mine)))
                o.detail = r.get('raw', '')
            else:
                o.verdict = 'undecided'
                o.reason = '; '.join(sorted(set(d for d, _ in mine)))
                o.detail = r.get('raw', '')
        else:
            o.verdict = 'undecided'
            o.reason = 'no result (%s)' % r['status']
            o.detail = r.get('raw', '')
        obs.append(o)
    return obs


def _run_isa(prop, tier, seed, Ob):
    gen_isa()
    encs = encodings() if tier == 'thorough' else quick_subset(seed)
    names = [enc_name('i', b0, cb) for (b0, cb) in encs]
    if prop == 'C06':
        names += ['u_%02x' % b for b in UNDEFINED] + ['up_%02x' % b for b in UNDEFINED]
    results, info = run_harnesses('isa', 'h_isa', names, 600 if tier == 'quick' else 1800)
    obs = _obligations(prop, 'isa', names, results, Ob)
    # counterexample + native replay for refuted obligations (a few: the rest share root causes)
    todo = [o for o in obs if o.verdict == 'refuted'][:int(os.environ.get('VERIF_REPLAYS', '3'))]
    if todo:
        exe, err = native_build()
        for o in todo:
            hn = re.match(r'kani:isa::(\w+)\[', o.name).group(1)
            m = re.match(r'i_(cb_)?([0-9a-f]{2})$', hn)
            if not m or exe is None:
                o.detail += '\n[no native replay: %s]' % (('replay binary did not build: ' + (err or '')[-400:]) if exe is None else 'not an encoding harness')
                continue
            vals, err2 = playback('h_isa', 'isa::harnesses::' + hn)
            if vals is None:
                o.detail += '\n[playback: %s]' % err2
                continue
            b0, cb = (0xcb, int(m.group(2), 16)) if m.group(1) else (int(m.group(2), 16), None)
            # drop the trailing selector value (the harness' own kani::any::<u8>() after the check function)
            p = subprocess.run([exe, 'replay-isa', '%02x' % b0, ('%02x' % cb) if cb is not None else '-'] + vals, capture_output=True, text=True)
            try:
                rep = json.loads(p.stdout.strip().splitlines()[-1])
            except Exception:
                rep = {'error': 'replay output not understood', 'stdout': p.stdout[-500:], 'stderr': p.stderr[-500:]}
            rep['inputs_in_kani_any_order'] = vals
            rep['command'] = 'build/kani/target/debug/gbverif replay-isa %02x %s %s' % (b0, ('%02x' % cb) if cb is not None else '-', ' '.join(vals))
            confirmed = [c for c in rep.get('failed_checks', []) if _attribute(prop, c)]
            rep['confirmed_on_real_code'] = bool(confirmed) and not rep.get('assumption_violated')
            if rep['confirmed_on_real_code']:
                o.replay = rep
            else:
                o.detail += '\n[native replay did not reproduce: %s]' % json.dumps(rep)[:600]
    info['assumptions'] = ['SM83 reference semantics kani/src/sm83.rs (trusted spec, written from the instruction-set definition)',
                           'bus replaced by the recording bus (kani::stub): the interpreter is verified against the bus contract of C10',
                           'call-site precondition pc <= 0xFFFC (the instruction lies inside one fetch slice)',
                           'CBMC pointer-validity / reachability instrumentation off for these harnesses (no unsafe dereference once the bus is stubbed); Rust overflow / bounds / panic checks on']
    info['unit'] = 'kani:isa'
    info['status'] = 'ok' if not info.get('compile_error') else 'compile-error'
    if info.get('compile_error'):
        o = Ob('kani:isa::<crate>', 'kani/cbmc', 'unit'); o.verdict = 'undecided'; o.reason = '; '.join(info['notes'])
        obs = [o]
    return obs, info


def _run_jit(prop, tier, seed, Ob, only_frame=False):
    ok, note, tinfo = gen_jit()
    info0 = {'engine': 'kani:jit', 'notes': [], 'assumptions': []}
    if not ok:
        o = Ob('kani:jit::<templates>', 'kani/cbmc', 'unit'); o.verdict = 'undecided'; o.reason = note
        info0['notes'].append(note); info0['unit'] = 'kani:jit'; info0['status'] = 'template-error'
        return [o], info0
    encs = encodings() if tier == 'thorough' else jit_quick_subset(seed)
    names = ['j_frame'] + ([] if only_frame else [enc_name('j', b0, cb) for (b0, cb) in encs])
    if os.environ.get('VERIF_ONLY'):
        names = [n for n in os.environ['VERIF_ONLY'].split(',') if n.startswith('j_')]   # experiments only
    # an encoding whose code length depends on the immediate is represented by one harness per immediate interval
    names = [m for n in names for m in (tinfo[n][len('split '):].split(',') if tinfo.get(n, '').startswith('split ') else [n])]
    bad = [n for n in names if not tinfo.get(n, '').startswith('ok')]
    good = [n for n in names if n not in bad]
    results, info = run_harnesses('jit', 'h_jit', good, 900 if tier == 'quick' else 1500, module='jit')
    obs = _obligations(prop, 'jit', good, results, Ob)
    for n in bad:
        o = Ob('kani:jit::%s[%s]' % (n, prop), 'kani/cbmc', 'harness'); o.verdict = 'undecided'
        o.reason = 'template derivation: ' + tinfo.get(n, 'missing')
        obs.append(o)
    for o in obs:
        # a model fault (instruction form unknown to the x86 model) or a template mismatch is undecided, never an alarm
        if o.verdict == 'refuted' and ('no model fault' in o.reason or 'derived template' in o.reason):
            o.verdict = 'undecided'
    # counterexample + native replay: the real translator's machine code on the host CPU vs the real interpreter
    todo = [o for o in obs if o.verdict == 'refuted'][:int(os.environ.get('VERIF_REPLAYS', '3'))]
    if todo:
        exe, err = native_build()
        for o in todo:
            hn = re.match(r'kani:jit::(\w+)\[', o.name).group(1)
            m = re.match(r'j_(cb_)?([0-9a-f]{2})(?:_k\d)?$', hn)
            if hn == 'j_frame' and exe is not None:
                vals, err2 = playback('h_jit', 'jit::harnesses::j_frame', timeout_s=600)
                if vals is None:
                    o.detail += '\n[playback: %s]' % err2
                    continue
                args = [exe, 'replay-frame'] + vals[:7]
                p = subprocess.run(args, capture_output=True, text=True)
                try:
                    rep = json.loads(p.stdout.strip().splitlines()[-1])
                except Exception:
                    rep = {'error': 'replay output not understood (exit %s)' % p.returncode, 'stderr': p.stderr[-500:]}
                rep['inputs_in_kani_any_order'] = vals[:7]
                rep['command'] = 'build/kani/target/debug/gbverif ' + ' '.join(args[1:])
                rep['confirmed_on_real_code'] = bool([c for c in rep.get('failed_checks', []) if _attribute(prop, c)])
                if rep['confirmed_on_real_code']:
                    o.replay = rep
                else:
                    o.detail += '\n[native replay did not reproduce: %s]' % json.dumps(rep)[:700]
                continue
            if not m or exe is None:
                o.detail += '\n[no native replay: %s]' % (('replay binary did not build: ' + (err or '')[-400:]) if exe is None else 'not an encoding harness')
                continue
            vals, err2 = playback('h_jit', 'jit::harnesses::' + hn, timeout_s=1500)
            if vals is None:
                o.detail += '\n[playback: %s]' % err2
                continue
            b0, cb = (0xcb, int(m.group(2), 16)) if m.group(1) else (int(m.group(2), 16), None)
            args = [exe, 'replay-jit', '%02x' % b0, ('%02x' % cb) if cb is not None else '-'] + vals[:16]
            p = subprocess.run(args, capture_output=True, text=True)
            try:
                rep = json.loads(p.stdout.strip().splitlines()[-1])
            except Exception:
                rep = {'error': 'replay output not understood (exit %s)' % p.returncode, 'stdout': p.stdout[-500:], 'stderr': p.stderr[-500:]}
            rep['inputs_in_kani_any_order'] = vals[:16]
            rep['command'] = 'build/kani/target/debug/gbverif ' + ' '.join(args[1:])
            confirmed = [c for c in rep.get('failed_checks', []) if _attribute(prop, c)]
            rep['confirmed_on_real_code'] = bool(confirmed)
            if rep['confirmed_on_real_code']:
                o.replay = rep
            else:
                o.detail += '\n[native replay (real machine code on the host CPU) did not reproduce: %s]' % json.dumps(rep)[:900]
    info['assumptions'] = ['x86-64 semantics kani/src/x86.rs for the instruction forms the emitter uses (trusted model; undefined flags and SysV caller-saved registers havocked)',
                           'reference = the real interpreter (itself pinned to the SM83 spec by C05/C06)',
                           'helper calls obey the bus contract (C10); stack alignment at helper calls not modelled',
                           'templates derived natively from the real emitter are re-proved equal to the real emitter output under CBMC for all immediates (check "emitted bytes equal the derived template")',
                           'CBMC pointer-validity / reachability instrumentation off for these harnesses; Rust overflow / bounds / panic checks on']
    info['unit'] = 'kani:jit'
    info['status'] = 'ok' if not info.get('compile_error') else 'compile-error'
    if info.get('compile_error'):
        o = Ob('kani:jit::<crate>', 'kani/cbmc', 'unit'); o.verdict = 'undecided'; o.reason = '; '.join(info['notes'])
        obs = [o]
    return obs, info


def jit_quick_subset(seed):
    sel = []
    for (b0, cb) in encodings():
        if cb is None:
            x, y, z = b0 >> 6, (b0 >> 3) & 7, b0 & 7
            if x == 3:
                sel.append((b0, cb))
            elif x == 0 and (z in (0, 2, 7) or y in ((seed) % 8, (seed + 3) % 8) or (z == 6) or (y == 6)):
                sel.append((b0, cb))
            elif x in (1, 2) and (z == 6 or y == 6 or (z == (seed + y) % 8 and y % 2 == seed % 2)):
                sel.append((b0, cb))
        else:
            x, y, z = cb >> 6, (cb >> 3) & 7, cb & 7
            if (z == 6 and (x == 0 or y in (0, 7, (seed + 3) % 8))) or (z == (seed + y) % 6 and (x == 0 or y == (seed + x) % 8)):
                sel.append((b0, cb))
    return sel
