#!/usr/bin/env python3
"""Regenerate /verif/MANIFEST.json from lib/registry.py (keeps the interface file consistent with the driver)."""
import json, os, sys
ROOT = os.path.dirname(os.path.dirname(os.path.abspath(__file__)))
sys.path.insert(0, ROOT)
from lib import registry

ALL = ['C%02d' % i for i in range(1, 21)]
checks = []
for pid in ALL:
    r = registry.PROPS.get(pid)
    if not r:
        continue
    engines = ['verus:' + u for u in r.get('verus', [])] + ['kani:' + g for g in r.get('kani', [])]
    checks.append({
        'property_id': pid,
        'quick_cmd': './check %s --tier quick' % pid,
        'thorough_cmd': './check %s --tier thorough' % pid,
        'evidence_file': 'evidence/%s.json' % pid,
        'replay_cmd_template': './check %s --replay {path}' % pid,
        'engine': ', '.join(engines),
        'level_claimed': {'category': r.get('level', 'proof'), 'text': r['level_text'], 'design_ref': r.get('design_ref', 'DESIGN.md section 5')},
        'level_note': r['level_note'],
        'technique': r['technique'],
    })
na = [{'property_id': pid, 'reason': registry.NOT_APPLICABLE.get(pid, 'check not built yet (work in progress)')}
      for pid in ALL if pid not in registry.PROPS]
m = {
    'version': 1,
    'setup_cmd': './setup.sh',
    'hooks': {
        'guard': 'gb_dynarec_verif',
        'enable': 'RUSTFLAGS="--cfg gb_dynarec_verif" (Kani/replay crates pass it through .cargo/config.toml); Verus units need no hooks',
        'baseline_off_cmd': 'cd /repo && cargo test --workspace --no-fail-fast --offline',
        'source_commits': registry.HOOK_COMMITS,
        'add_only': True,
    },
    'engines': [
        {'name': 'verus-units', 'path': 'specs/ + lib/vx.py', 'serves_properties': sorted(p for p, r in registry.PROPS.items() if r.get('verus')),
         'kind_free_text': 'contracts spliced onto functions extracted mechanically from /repo/src on every run, discharged by Verus/Z3'},
        {'name': 'kani-harnesses', 'path': 'kani/', 'serves_properties': sorted(p for p, r in registry.PROPS.items() if r.get('kani')),
         'kind_free_text': 'wrapper crate that includes the unmodified /repo/src files by #[path]; loop-free full-domain harnesses per opcode / per function, discharged by CBMC'},
    ],
    'checks': checks,
    'not_applicable': na,
    'notes': 'exit 0 = all obligations discharged; exit 1 = VIOLATION line; exit 2 = undecided (never an alarm). See DESIGN.md.',
}
json.dump(m, open(os.path.join(ROOT, 'MANIFEST.json'), 'w'), indent=1)
print('MANIFEST.json: %d checks, %d not_applicable' % (len(checks), len(na)))
