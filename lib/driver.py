"""Property driver: runs the engines a property needs, classifies verdicts, writes evidence, sets the exit code."""
import os, sys, json, time, re, hashlib, subprocess
from . import verus_run, registry

ROOT = os.path.dirname(os.path.dirname(os.path.abspath(__file__)))
BUILD = os.path.join(ROOT, 'build')
EVID = os.path.join(ROOT, 'evidence')
KNOWN = os.path.join(ROOT, 'known_findings.json')

CHEATS = ('assume(', 'admit(', 'external_body', 'assume_specification', '#[verifier::external', 'verifier::exec_allows_no_decreases_clause')


class Ob:
    """One proof obligation as reported in the evidence."""
    def __init__(self, name, backend, kind='contract'):
        self.name = name            # e.g. verus:timer::Timer::run_cycles
        self.backend = backend      # verus/z3 | kani/cbmc
        self.kind = kind            # contract | lemma | vacuity-probe | harness
        self.verdict = 'undecided'  # discharged | refuted | undecided
        self.time_s = 0.0
        self.detail = ''            # verifier output for failures
        self.reason = ''            # short class
        self.repo = ''
        self.replay = None          # dict from a native replay
        self.bounded = None

    def to_json(self):
        d = {'obligation': self.name, 'backend': self.backend, 'kind': self.kind, 'verdict': self.verdict,
             'time_s': round(self.time_s, 3)}
        if self.repo:
            d['function'] = self.repo
        if self.reason:
            d['reason'] = self.reason
        return d


def load_known():
    try:
        return json.load(open(KNOWN))
    except Exception:
        return {'findings': [], 'fixed': []}


def finding_matches(f, prop, ob):
    if f.get('status') != 'open' or f.get('property') != prop:
        return False
    # the same extracted function can be an obligation of several Verus units (shared include files): the finding names the
    # function, `verus:*::<fn>` stands for that function in whichever unit it is proved
    fo = f.get('obligation', '')
    if fo.startswith('verus:*::'):
        if not (ob.name.startswith('verus:') and ob.name.split('::', 1)[-1] == fo[len('verus:*::'):]):
            return False
    elif fo != ob.name:
        return False
    pat = f.get('match')
    if pat and not re.search(pat, ob.detail + ' ' + ob.reason, re.S):
        return False
    return True


def scan_cheats(text):
    found = []
    for no, l in enumerate(text.split('\n'), 1):
        ls = l.strip()
        if ls.startswith('//'):
            continue
        for c in CHEATS:
            if c in l:
                found.append('line %d: %s' % (no, ls[:140]))
    return found


def verus_obligations(prop, unit_name, tier):
    """Run one unit; return (obligations for prop, unit result, status)."""
    conf = registry.UNITS.get(unit_name, {})
    res, unit = verus_run.run_unit(unit_name, rlimit=conf.get('rlimit'))
    obs = []
    if unit is None or res['status'] != 'ok':
        o = Ob('verus:%s::<unit>' % unit_name, 'verus/z3', 'unit')
        o.verdict = 'undecided'
        o.reason = res['status'] + ': ' + '; '.join(res['notes'][:3])
        o.detail = res.get('stderr_tail', '')
        obs.append(o)
        return obs, res, unit
    fns = res['functions']
    restructured = res.get('restructured', {}) or {}
    lost = {}
    for n in res['notes']:
        m = re.match(r'lost hint anchor in (\w+):', n)
        if m:
            lost[m.group(1)] = n

    def verdict_for(q, o, must_fail=False):
        fr = fns.get(q)
        if fr is None:
            o.verdict = 'undecided'; o.reason = 'function not found in generated unit'
            return
        o.time_s = fr.time_us / 1e6
        if must_fail:
            if fr.success is False and any(c == 'semantic' for (c, _, _) in fr.errors):
                o.verdict = 'discharged'
            elif fr.success is False:
                o.verdict = 'undecided'; o.reason = 'vacuity probe failed for a non-semantic reason'
                o.detail = '\n'.join(t for (_, _, t) in fr.errors)
            else:
                o.verdict = 'undecided'; o.reason = 'precondition is contradictory (vacuity probe verified)'
            return
        if fr.success is None or fr.success is True:
            o.verdict = 'discharged'
            return
        classes = set(c for (c, _, _) in fr.errors)
        o.detail = '\n'.join(t for (_, _, t) in fr.errors)
        o.reason = '; '.join(sorted(set(m for (_, m, _) in fr.errors)))
        short = q.split('::')[-1]
        if not fr.errors:
            o.verdict = 'undecided'; o.reason = 'verifier reported failure without a diagnostic'
        elif re.sub(r'_case\d+$', '', short) in restructured:
            # R14: a loop of this function was rewritten; the template's invariant / variant were written for the old loop, so a
            # failure says nothing about the code
            o.verdict = 'undecided'
            o.reason += ' [' + restructured[re.sub(r'_case\d+$', '', short)] + ']'
        elif 'semantic' in classes and classes <= {'semantic', 'rlimit'} and short not in lost:
            # a resource limit hit while Verus kept searching for FURTHER errors of the same function does not retract the
            # failed obligation it already reported with a counter-model
            o.verdict = 'refuted'
        else:
            o.verdict = 'undecided'
            if short in lost:
                o.reason += ' [' + lost[short] + ']'

    # Modular verification: a property also depends on every function its tagged functions call (directly or not),
    # because callers are proved against the callees' contracts.  Close the tagged set under an over-approximated
    # call graph (simple-name match inside the generated text).
    ranges = verus_run.fn_ranges(unit.text)
    lines = unit.text.split('\n')
    body_of = {}
    for (s0, e0, q) in ranges:
        body_of.setdefault(q, '')
        body_of[q] += '\n'.join(lines[s0 - 1:e0])
    by_simple = {}
    for rec in unit.fns:
        by_simple.setdefault(rec['name'], []).append(rec)
    wanted = [rec for rec in unit.fns if prop in rec['props']]
    seen = set(id(r) for r in wanted)
    work = list(wanted)
    while work:
        rec = work.pop()
        text = verus_run.vx.mask_noncode(body_of.get(rec['qual'], ''))
        for name, recs in by_simple.items():
            if not re.search(r'(?<![A-Za-z0-9_])%s\s*\(' % re.escape(name), text):
                continue
            for r2 in recs:
                if id(r2) in seen or r2 is rec:
                    continue
                if len(recs) > 1:
                    # ambiguous simple name: need `Type::name(` or a method call `.name(`
                    ty = r2['qual'].rsplit('::', 1)[0] if '::' in r2['qual'] else None
                    pat = r'\.\s*%s\s*\(' % re.escape(name)
                    if ty:
                        pat += r'|(?<![A-Za-z0-9_])%s\s*::\s*%s\s*\(' % (re.escape(ty), re.escape(name))
                    if not re.search(pat, text):
                        continue
                seen.add(id(r2)); wanted.append(r2); work.append(r2)
    for rec in unit.fns:
        if id(rec) not in seen or rec['external']:
            continue
        o = Ob('verus:%s::%s' % (unit_name, rec['qual']), 'verus/z3', 'contract')
        o.repo = rec['repo']
        verdict_for(rec['qual'], o)
        obs.append(o)
        if rec.get('vac'):
            vq = rec['qual'].rsplit('::', 1)
            vq = (vq[0] + '::' if len(vq) == 2 else '') + rec['vac']
            v = Ob('verus:%s::%s' % (unit_name, vq), 'verus/z3', 'vacuity-probe')
            verdict_for(vq, v, must_fail=True)
            obs.append(v)
    for fname, props in unit.tags.items():
        if prop not in props:
            continue
        o = Ob('verus:%s::%s' % (unit_name, fname), 'verus/z3', 'lemma')
        verdict_for(fname, o)
        obs.append(o)
    # R13, second attempt: Z3's default theories do not relate the bit-level and the arithmetic form of the same value
    # (x & 31 vs x % 32, x >> 3 vs x / 8, ...), so an equivalent rewrite of such an expression can fail a proof that holds.
    # Before a failed function obligation is reported, the unit is generated once more with bridge lemmas (each proved by
    # Verus' bit-vector mode) for the literal masks / shifts / powers of two of exactly the failing functions.  Only sound
    # facts are added: an obligation discharged now is proved; one that still fails is reported as before.
    failing = [o for o in obs if o.verdict == 'refuted' and o.kind == 'contract']
    if failing and os.environ.get('VERIF_NO_RETRY') != '1':
        names = set()
        for o in failing:
            n = o.name.split('::')[-1]
            names.add(re.sub(r'_case\d+$', '', n))
        res2, unit2 = verus_run.run_unit(unit_name, rlimit=conf.get('rlimit'), auto_bits=sorted(names))
        if unit2 is not None and res2['status'] == 'ok' and any(n.startswith('R13') for n in res2['notes']):
            fns2 = res2['functions']
            for o in failing:
                q = o.name[len('verus:%s::' % unit_name):]
                fr = fns2.get(q)
                if fr is not None and (fr.success is None or fr.success is True):
                    o.verdict = 'discharged'
                    o.reason = 'discharged on the second attempt, with generated bit-vector bridge lemmas (R13) for ' + ', '.join(sorted(names))
                    o.detail = ''
                    o.time_s += fr.time_us / 1e6
            res['notes'] = list(res['notes']) + ['second attempt with R13 bridge lemmas for: ' + ', '.join(sorted(names))]
    return obs, res, unit


def write_evidence(prop, tier, seed, level, obs, wall, assumptions, extra):
    os.makedirs(EVID, exist_ok=True)
    counted = [o for o in obs if o.bounded is None]
    bounded = [o for o in obs if o.bounded is not None]
    n = len(counted)
    d = sum(1 for o in counted if o.verdict == 'discharged')
    by_backend = {}
    for o in counted:
        by_backend.setdefault(o.backend, {'obligations': 0, 'discharged': 0, 'time_s': 0.0})
        by_backend[o.backend]['obligations'] += 1
        by_backend[o.backend]['discharged'] += 1 if o.verdict == 'discharged' else 0
        by_backend[o.backend]['time_s'] = round(by_backend[o.backend]['time_s'] + o.time_s, 3)
    samples = [o.to_json() for o in counted[:6]] + [o.to_json() for o in counted if o.verdict != 'discharged'][:10]
    cov = {
        'obligations': n, 'discharged': d,
        'checker_cmd': extra.get('checker_cmd', ''),
        'trusted_base': extra.get('trusted_base', []),
        'samples': samples,
        'functions_under_contract': sorted(set(o.repo for o in counted if o.repo)),
        'obligations_by_backend': by_backend,
        'solver_time_s': round(sum(o.time_s for o in counted), 3),
        'undecided': [o.to_json() for o in counted if o.verdict == 'undecided'],
        'refuted': [o.to_json() for o in counted if o.verdict == 'refuted'],
        'bounded': [dict(o.to_json(), bound=o.bounded) for o in bounded],
        'known_findings': extra.get('known_findings', []),
        'all_obligations': [o.to_json() for o in counted] if n <= 400 else 'omitted (%d)' % n,
        'units': extra.get('units', []),
        'notes': extra.get('notes', []),
        'exhaustive': False,
    }
    ev = {'property_id': prop, 'tier': tier, 'seed': seed, 'level': level, 'coverage': cov,
          'assumptions': assumptions, 'wall_s': round(wall, 2), 'violations': extra.get('violations', 0)}
    path = os.path.join(EVID, prop + '.json')
    json.dump(ev, open(path, 'w'), indent=1)
    return path


def write_replay(prop, ob):
    d = os.path.join(BUILD, 'replay', prop)
    os.makedirs(d, exist_ok=True)
    fn = re.sub(r'[^A-Za-z0-9_.-]+', '_', ob.name) + '.txt'
    path = os.path.join(d, fn)
    with open(path, 'w') as f:
        f.write('property: %s\nfailed obligation: %s\nback end: %s\nfunction: %s\nreason: %s\n' %
                (prop, ob.name, ob.backend, ob.repo, ob.reason))
        if ob.replay:
            f.write('\n--- counterexample replayed against the real code ---\n')
            f.write(json.dumps(ob.replay, indent=1) + '\n')
        else:
            f.write('\nno-failing-input-found: the verifier gives no counterexample for this obligation\n')
        f.write('\n--- verifier output ---\n' + ob.detail + '\n')
    return path


def run_property(prop, tier, seed):
    t0 = time.time()
    reg = registry.PROPS.get(prop)
    if reg is None:
        print('property %s is not claimed (see MANIFEST.json not_applicable)' % prop)
        return 2
    obs = []
    assumptions = list(reg.get('assumptions', []))
    notes = []
    units = []
    cmds = []
    for unit_name in reg.get('verus', []):
        o, res, unit = verus_obligations(prop, unit_name, tier)
        obs += o
        units.append({'unit': unit_name, 'status': res['status'], 'verus_verified': res['verified'],
                      'verus_errors': res['errors'], 'wall_s': round(res['wall_s'], 2), 'smt_s': res['smt_s'],
                      'sources': res['sources'], 'sha': res.get('sha')})
        notes += res['notes']
        cmds.append(res['cmd'])
        for a in res['assumed']:
            assumptions.append('[%s] %s' % (unit_name, a))
        if unit is not None:
            for c in scan_cheats(unit.text):
                assumptions.append('[%s] unchecked construct, %s' % (unit_name, c))
    for scan in reg.get('scans', []):
        if scan == 'stdout':
            obs.append(stdout_scan(prop))
            cmds.append('syntactic scan of the core modules for print!/println!/stdout (lib/driver.py stdout_scan)')
    if reg.get('kani'):
        from . import kani_run
        for group in reg['kani']:
            o, info = kani_run.run_group(prop, group, tier, seed)
            obs += o
            units.append(info)
            cmds.append(info.get('cmd', ''))
            assumptions += info.get('assumptions', [])
            notes += info.get('notes', [])
    # Twin rule: a function whose whole contract is also decided by a COMPLETE Kani harness over the real function (all
    # inputs, loop-free) has a second, bit-precise opinion.  If the Verus proof of such a function fails although its twin
    # passes on the same tree, the failure is the proof's (hints that no longer fit a refactored body), not the code's: the
    # obligation is reported as undecided.  If the twin fails too it is a violation, with the twin's counterexample.
    for o in obs:
        if o.verdict != 'refuted' or not o.name.startswith('verus:'):
            continue
        q = o.name.split('::', 1)[-1]
        q = re.sub(r'_case\d+$', '', q)
        if q not in registry.TWINS:
            continue
        twin, twin_prop = registry.TWINS[q]
        from . import kani_run
        tobs, tinfo = kani_run.run_group(twin_prop, twin, tier, seed)
        if tobs and all(t.verdict == 'discharged' for t in tobs):
            o.verdict = 'undecided'
            o.reason += ' [the complete Kani twin %s of this contract passes on the same tree: proof failure, not a counterexample]' % twin
            notes.append('twin rule applied to %s (twin %s passes)' % (o.name, twin))
        elif tobs and any(t.verdict == 'refuted' for t in tobs) and not any(x.name == t.name for t in tobs for x in obs):
            obs += [t for t in tobs if t.verdict == 'refuted']
    known = load_known()
    kf_lines = []
    violations = []
    for o in obs:
        if o.bounded is not None and o.verdict == 'discharged':
            continue
        if o.verdict == 'refuted':
            hit = [f for f in known.get('findings', []) if finding_matches(f, prop, o)]
            if hit:
                kf_lines.append('KNOWN-FINDING: property=%s %s [%s]' % (prop, hit[0].get('what', ''), o.name))
                o.verdict = 'known-finding'
            else:
                violations.append(o)
    undecided = [o for o in obs if o.verdict == 'undecided']
    counted = [o for o in obs if o.bounded is None]
    # known findings stay in the obligation count but are reported separately; for the evidence they are not discharged
    extra = {'checker_cmd': ' ; '.join(c for c in cmds if c), 'trusted_base': reg.get('trusted_base', []),
             'known_findings': kf_lines, 'units': units, 'notes': notes, 'violations': len(violations)}
    # an open known finding is excluded from the discharged==obligations comparison
    ev_obs = [o for o in obs if o.verdict != 'known-finding']
    path = write_evidence(prop, tier, seed, reg.get('level', 'proof'), ev_obs, time.time() - t0, assumptions, extra)
    for l in kf_lines:
        print(l)
    n = len([o for o in ev_obs if o.bounded is None])
    d = sum(1 for o in ev_obs if o.bounded is None and o.verdict == 'discharged')
    print('%s tier=%s: %d/%d obligations discharged, %d refuted, %d undecided, %d known findings, %.1fs; evidence %s' %
          (prop, tier, d, n, len(violations), len(undecided), len(kf_lines), time.time() - t0, path))
    if violations:
        for o in violations:
            rp = write_replay(prop, o)
            tail = '' if o.replay else ' no-failing-input-found'
            print('VIOLATION property=%s replay=%s%s' % (prop, rp, tail))
            print('  obligation %s: %s' % (o.name, o.reason))
        return 1
    if undecided or n == 0:
        for o in undecided:
            print('UNDECIDED %s: %s' % (o.name, o.reason))
            if o.detail:
                print('  ' + o.detail.strip().replace('\n', '\n  ')[:1500])
        if n == 0:
            print('UNDECIDED: no obligations were generated')
        return 2
    return 0


def replay(prop, path):
    try:
        sys.stdout.write(open(path).read())
        return 0
    except OSError as e:
        print('cannot read replay file: %s' % e)
        return 2


# ---------------------------------------------------------------------------------------------------------------------
# C18 frame scan: no function of the core other than SerialComms::set_control may touch the host's standard output
CORE_DIRS = ['src/cache', 'src/decoder', 'src/devices', 'src/emitter', 'src/interpreter']
CORE_FILES = ['src/cpu.rs', 'src/cart.rs', 'src/emulator.rs', 'src/mem.rs', 'src/timing.rs']


def stdout_scan(prop):
    """Syntactic frame condition for C18: every `print!`/`println!`/`stdout` occurrence in the core modules (code compiled
    in the default feature set, tests excluded) must be inside SerialComms::set_control."""
    import glob
    from . import vx
    repo = os.environ.get('VERIF_REPO', '/repo')
    files = [os.path.join(repo, f) for f in CORE_FILES]
    for d in CORE_DIRS:
        files += sorted(glob.glob(os.path.join(repo, d, '**', '*.rs'), recursive=True))
    o = Ob('scan:stdout-frame', 'syntactic scan', 'frame-scan')
    hits = []
    n_files = 0
    for f in files:
        if not os.path.exists(f) or f.endswith('windows.rs'):
            continue
        n_files += 1
        src = open(f).read()
        # drop #[cfg(test)] modules and blocks guarded by the dump_disassembly debugging feature
        try:
            t = src
            m = vx.mask_noncode(t)
            tm = re.search(r'#\[cfg\(test\)\]\s*mod\s+\w+\s*\{', m)
            if tm:
                close = vx.match_close(m, m.index('{', tm.start()))
                t = t[:tm.start()] + ' ' * (close + 1 - tm.start()) + t[close + 1:]
            t = vx.apply_cfg_blank(t, ['jit'])
        except Exception as e:
            o.verdict = 'undecided'; o.reason = 'cannot scan %s: %s' % (f, e)
            return o
        m = vx.mask_noncode(t)
        for hm in re.finditer(r'\b(print|println)!\s*\(|\bstdout\s*\(', m):
            line = t.count('\n', 0, hm.start()) + 1
            rel = os.path.relpath(f, repo)
            if rel == 'src/devices/serial.rs':
                # must be inside set_control
                fm = list(re.finditer(r'\bfn\s+(\w+)', m[:hm.start()]))
                if fm and fm[-1].group(1) == 'set_control':
                    continue
            hits.append('%s:%d: %s' % (rel, line, t.split('\n')[line - 1].strip()[:100]))
    o.time_s = 0.0
    if hits:
        o.verdict = 'refuted'
        o.reason = 'the core writes to standard output outside SerialComms::set_control: ' + '; '.join(hits[:4])
        o.detail = '\n'.join(hits)
        o.replay = {'confirmed_on_real_code': True, 'kind': 'source locations (the scan is of the real sources)', 'locations': hits}
    else:
        o.verdict = 'discharged'
    o.repo = '%d core source files scanned' % n_files
    return o
