"""Run one Verus unit generated from /repo and classify the per-function verdicts."""
import os, re, json, subprocess, time, hashlib
from . import vx

ROOT = os.path.dirname(os.path.dirname(os.path.abspath(__file__)))
BUILD = os.path.join(ROOT, 'build')

SEMANTIC = (
    'postcondition not satisfied', 'precondition not satisfied', 'invariant not satisfied',
    'assertion failed', 'possible arithmetic underflow/overflow', 'possible division by zero',
    'possible bit shift underflow/overflow', 'decreases not satisfied', 'index out of bounds',
    'loop invariant not satisfied', 'assertion not satisfied', 'possible truncation',
    'cannot show invariant', 'could not prove termination', 'call to unreached', 'precondition not met',
)
UNDECIDED = ('Resource limit (rlimit) exceeded', 'rlimit exceeded', 'timed out', 'solver')


class FnResult:
    def __init__(self, name):
        self.name = name
        self.success = None   # True / False / None (no SMT query: trivially true)
        self.time_us = 0
        self.rlimit = 0
        self.mode = ''
        self.errors = []      # (class, message, text)


def fn_ranges(text):
    """(start_line, end_line, qualified name) for every fn header in the generated file (1-based lines)."""
    lines = text.split('\n')
    heads = []
    stack = []   # (name, depth_before)
    depth = 0
    for no, l in enumerate(lines, 1):
        ml = vx.mask_noncode(l)
        im = re.match(r'^\s*(?:pub\s+)?impl\s*(?:<[^>]*>\s*)?(?:([\w:<>]+)\s+for\s+)?(\w+)[^{;]*\{\s*$', ml)
        mm = re.match(r'^\s*(?:pub\s+)?mod\s+(\w+)\s*\{\s*$', ml)
        tm = re.match(r'^\s*(?:pub\s+)?trait\s+(\w+)[^{;]*\{\s*$', ml)
        if im:
            stack.append((im.group(2), depth))
        elif mm:
            stack.append((mm.group(1), depth))
        elif tm:
            stack.append((tm.group(1), depth))
        fm = re.match(r'^\s*(?:#\[[^\]]*\]\s*)*(?:pub\s+)?(?:(?:open|closed|broadcast|uninterp)\s+)*(?:(?:proof|spec|exec)\s+)?fn\s+(\w+)', ml)
        if fm:
            q = '::'.join([n for (n, _) in stack] + [fm.group(1)])
            heads.append((no, q))
        depth += ml.count('{') - ml.count('}')
        while stack and depth <= stack[-1][1]:
            stack.pop()
    res = []
    for k, (no, q) in enumerate(heads):
        end = heads[k + 1][0] - 1 if k + 1 < len(heads) else len(lines)
        res.append((no, end, q))
    return res


def parse_errors(stderr):
    """Split rustc-style diagnostics: [(severity, message, file_line, block_text)]."""
    blocks = []
    cur = None
    for l in stderr.split('\n'):
        m = re.match(r'^(error|warning|note)(\[[A-Z0-9]+\])?: (.*)$', l)
        if m:
            cur = {'sev': m.group(1), 'code': m.group(2), 'msg': m.group(3), 'line': None, 'text': l + '\n', 'lines': []}
            blocks.append(cur)
        elif cur is not None:
            cur['text'] += l + '\n'
            lm = re.match(r'^\s*-->\s*(\S+):(\d+):(\d+)', l)
            if lm and cur['line'] is None:
                cur['line'] = int(lm.group(2))
            lm2 = re.match(r'^\s*(\d+)\s*\|', l)
            if lm2:
                cur['lines'].append(int(lm2.group(1)))
    return blocks


def classify(msg):
    for s in SEMANTIC:
        if s in msg:
            return 'semantic'
    for s in UNDECIDED:
        if s in msg:
            return 'rlimit'
    return 'other'


DEFAULT_RLIMIT = 30   # 3x Verus' default budget: a proof that drifts near the default limit must not turn into 'undecided' on the unchanged tree


def run_unit(unit_name, rlimit=None, extra_args=(), auto_bits=()):
    """Generate build/<unit>.rs from specs/<unit>.vspec and /repo, run Verus, return a result dict."""
    os.makedirs(BUILD, exist_ok=True)
    spec_path = os.path.join(ROOT, 'specs', unit_name + '.vspec')
    t0 = time.time()
    res = {'unit': unit_name, 'status': 'ok', 'functions': {}, 'notes': [], 'assumed': [], 'sources': [],
           'cmd': '', 'wall_s': 0.0, 'smt_s': 0.0, 'verified': 0, 'errors': 0, 'stderr_tail': ''}
    try:
        vx._SRC_CACHE.clear()
        unit = vx.process_template(spec_path, unit_name, auto_bits=tuple(auto_bits))
    except vx.ExtractError as e:
        res['status'] = 'extract-error'
        res['notes'].append(str(e))
        res['wall_s'] = time.time() - t0
        return res, None
    # R14: the annotated loops are compared with the loops the annotations were written for (specs/loop_heads.json, recorded
    # on the pinned tree by tools/gen_loop_heads.py): a loop whose head now mentions other variables was rewritten, and the
    # template's invariant / variant no longer describe it
    res['restructured'] = {}
    try:
        ref = json.load(open(os.path.join(ROOT, 'specs', 'loop_heads.json'))).get(unit_name, {})
        for fn_, loops_ in unit.loop_heads.items():
            for k_, ids_ in loops_.items():
                want = ref.get(fn_, {}).get(k_)
                if want is not None and sorted(want) != sorted(ids_):
                    res['restructured'][fn_] = 'loop %s of %s now runs over {%s}, the annotations were written for {%s}' % (k_, fn_, ', '.join(ids_), ', '.join(want))
    except Exception:
        pass
    gen = os.path.join(BUILD, unit_name + ('_retry' if auto_bits else '') + '.rs')
    open(gen, 'w').write(unit.text)
    res['notes'] = list(unit.notes)
    res['assumed'] = list(unit.assumed)
    res['sources'] = sorted(unit.sources)
    rlimit = rlimit or DEFAULT_RLIMIT
    sha = hashlib.sha256((unit.text + repr(rlimit) + repr(extra_args) + repr(SEMANTIC) + repr(UNDECIDED)).encode()).hexdigest()[:20]
    cpath = os.path.join(BUILD, 'cache', 'verus_%s_%s.pickle' % (unit_name, sha))
    if os.environ.get('VERIF_NO_CACHE') != '1' and os.path.exists(cpath):
        try:
            import pickle
            cres = pickle.load(open(cpath, 'rb'))
            cres['notes'] = list(unit.notes) + ['verdicts reused from an identical generated unit (sha %s)' % sha]
            cres['reused'] = True
            cres['restructured'] = res['restructured']
            return cres, unit
        except Exception:
            pass
    cmd = ['verus', gen, '--output-json', '--time', '--multiple-errors', '4']
    if rlimit:
        cmd += ['--rlimit', str(rlimit)]
    cmd += list(extra_args)
    res['cmd'] = ' '.join(cmd)
    try:
        p = subprocess.run(cmd, capture_output=True, text=True, timeout=3600, cwd=BUILD)
    except FileNotFoundError:
        res['status'] = 'tool-missing'
        return res, unit
    except subprocess.TimeoutExpired:
        res['status'] = 'timeout'
        return res, unit
    open(os.path.join(BUILD, unit_name + '.err'), 'w').write(p.stderr)
    open(os.path.join(BUILD, unit_name + '.json'), 'w').write(p.stdout)
    res['stderr_tail'] = p.stderr[-4000:]
    try:
        j = json.loads(p.stdout)
    except Exception:
        res['status'] = 'tool-error'
        res['notes'].append('verus produced no JSON (exit %s)' % p.returncode)
        res['wall_s'] = time.time() - t0
        return res, unit
    vr = j.get('verification-results', {})
    res['verified'] = vr.get('verified', 0)
    res['errors'] = vr.get('errors', 0)
    ranges = fn_ranges(unit.text)
    fns = {}
    for (_, _, q) in ranges:
        fns.setdefault(q, FnResult(q))
    smt = j.get('times-ms', {}).get('smt', {})
    for mod in smt.get('smt-run-module-times', []):
        for fb in mod.get('function-breakdown', []):
            name = fb['function'].split('::', 1)[1] if '::' in fb['function'] else fb['function']
            fr = fns.setdefault(name, FnResult(name))
            ok = bool(fb.get('success'))
            fr.success = ok if fr.success is None else (fr.success and ok)
            fr.time_us += fb.get('time-micros', 0)
            fr.rlimit += fb.get('rlimit', 0)
            fr.mode = fb.get('mode:', fb.get('mode', ''))
    res['smt_s'] = smt.get('total', 0) / 1000.0
    blocks = parse_errors(p.stderr)
    hard = []
    for b in blocks:
        if b['sev'] != 'error':
            continue
        if b['msg'].startswith('aborting due to'):
            continue
        if b['line'] is None:
            hard.append(b)
            continue
        owner = None
        # the diagnostic's primary span can be the contract clause; take every quoted line into account and
        # attribute the error to the function whose range contains the primary line
        line = b['line']
        if 'postcondition not satisfied' in b['msg'] and b['lines']:
            # primary span = the ensures clause (possibly in a trait declaration); the body is the last quoted line
            line = b['lines'][-1]
        for (s, e, q) in ranges:
            if s <= line <= e:
                owner = q
        if owner is None:
            hard.append(b)
            continue
        fr = fns[owner]
        fr.errors.append((classify(b['msg']), b['msg'], b['text']))
        if fr.success is None or fr.success:
            fr.success = False
    if vr.get('encountered-vir-error') or (hard and not vr):
        res['status'] = 'compile-error'
    for b in hard:
        if b['code'] or 'verus' in b['msg'].lower() or True:
            res['notes'].append('unattributed error: ' + b['msg'])
    if hard and vr.get('verified', 0) == 0 and vr.get('errors', 0) == 0:
        res['status'] = 'compile-error'
    coded = [b for b in blocks if b['sev'] == 'error' and b['code']]
    if coded:
        # a Rust-level error (renamed local mentioned by an invariant, changed type ...): nothing was verified
        res['status'] = 'compile-error'
        res['notes'] = ['rust error in generated unit: %s (line %s)' % (b['msg'], b['line']) for b in coded[:5]] + res['notes']
    res['functions'] = fns
    res['wall_s'] = time.time() - t0
    res['gen'] = gen
    res['sha'] = sha
    if res['status'] == 'ok' and not any('Resource limit' in m for f in fns.values() for (_, m, _) in f.errors):
        try:
            import pickle
            os.makedirs(os.path.join(BUILD, 'cache'), exist_ok=True)
            pickle.dump(res, open(cpath, 'wb'))
        except Exception:
            pass
    return res, unit
