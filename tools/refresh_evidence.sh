#!/bin/bash
# Re-run every quick check on the CURRENT (clean) tree so that the committed evidence files describe the committed state.
cd /verif || exit 2
if [ -n "$(git -C /repo status --porcelain --untracked-files=no)" ]; then echo "/repo has uncommitted changes"; exit 2; fi
rc=0
for i in $(seq -w 1 20); do
  OUT=$(./check C$i --tier quick 2>&1); R=$?
  echo "$OUT" | grep -E "obligations discharged|VIOLATION|UNDECIDED" | head -3
  [ $R -ne 0 ] && rc=1
done
exit $rc
