#!/usr/bin/env python3
"""Regenerates the table of DESIGN.md 9.7 from benign/*/meta.json."""
import json, glob, os, re
ROOT = os.path.dirname(os.path.dirname(os.path.abspath(__file__)))
rows = ['| change | files | what | checks run -> exit code (0 proved, 2 undecided, 1 alarm) |', '|---|---|---|---|']
n = {0: 0, 1: 0, 2: 0}
for mp in sorted(glob.glob(os.path.join(ROOT, 'benign', '*', 'meta.json'))):
    m = json.load(open(mp))
    worst = max([v['exit'] for v in m['checks'].values()], key=lambda e: {0: 0, 2: 1, 1: 2}.get(e, 3))
    n[worst] = n.get(worst, 0) + 1
    what = re.sub(r'\s+', ' ', m['what'].replace('|', '/'))[:170]
    why = ''
    for p, v in m['checks'].items():
        if v['exit'] != 0 and v['output']:
            why = ' - ' + re.sub(r'\s+', ' ', ' '.join(v['output'][1:2]).replace('|', '/'))[:160]
            break
    rows.append('| %s | %s | %s | %s%s |' % (m['id'], ', '.join(m['files']), what, ', '.join('%s -> %d' % (p, v['exit']) for p, v in m['checks'].items()), why))
p = os.path.join(ROOT, 'DESIGN.md'); s = open(p).read()
a = s.index('<!-- benign table begin -->') + len('<!-- benign table begin -->'); b = s.index('<!-- benign table end -->')
s = s[:a] + '\n' + '\n'.join(rows) + '\n' + s[b:]
open(p, 'w').write(s)
print(len(rows) - 2, n)
