#!/bin/bash
# usage: tools/try_seed.sh <seed dir> <property> [more properties...]
# Applies <seed dir>/patch.diff to /repo, (optionally) confirms tests/demo, runs the quick checks, and ALWAYS restores /repo.
set -u
SEED=$1; shift
cd /repo || exit 2
if [ -n "$(git status --porcelain --untracked-files=no)" ]; then echo "repo not clean"; exit 2; fi
restore() { git -C /repo checkout -- . ; git -C /repo clean -fdq src; }
trap restore EXIT
if [ "${CONFIRM:-0}" = "1" ]; then
  git apply "$SEED/demo.diff" || { echo "demo.diff does not apply"; exit 2; }
  FEAT=""; grep -qi "features jit" "$SEED/notes.md" 2>/dev/null && FEAT="--features jit"
  echo "== demo only:"; cargo test --offline $FEAT 2>&1 | grep -E "^test result|FAILED|failed" | head -5
  git apply "$SEED/patch.diff" || { echo "patch.diff does not apply on top of demo"; exit 2; }
  echo "== demo + patch:"; cargo test --offline $FEAT 2>&1 | grep -E "^test result|FAILED|failed" | head -5
  restore
  git apply "$SEED/patch.diff" || exit 2
  echo "== patch only (suite, no jit):"; cargo test --offline 2>&1 | grep -E "^test result" | head -3
else
  git apply "$SEED/patch.diff" || { echo "patch.diff does not apply"; exit 2; }
fi
cd /verif
for P in "$@"; do
  OUT=$(./check $P --tier quick 2>&1); RC=$?
  echo "== check $P exit=$RC"; echo "$OUT" | grep -E "VIOLATION|UNDECIDED|obligations discharged|obligation " | head -8
done
