#!/usr/bin/env python3
"""tools/eval_seed.py <seed id> <property> [--tier quick|thorough] [--src /tmp/seeds]
Copies the seed into seeded/<id>/ (if not there yet), confirms it on /repo (tests pass with the patch, the demonstration
passes without and fails with it), runs ./check <property>, restores /repo and records the outcome in meta.json."""
import sys, os, json, subprocess, shutil, re
ROOT = os.path.dirname(os.path.dirname(os.path.abspath(__file__)))
sid, prop = sys.argv[1], sys.argv[2]
tier = 'quick'; src = '/tmp/seeds'
if '--tier' in sys.argv: tier = sys.argv[sys.argv.index('--tier') + 1]
if '--src' in sys.argv: src = sys.argv[sys.argv.index('--src') + 1]
d = os.path.join(ROOT, 'seeded', sid)
os.makedirs(d, exist_ok=True)
for f in ('patch.diff', 'demo.diff', 'notes.md'):
    if not os.path.exists(os.path.join(d, f)):
        shutil.copy(os.path.join(src, sid, f), d)
def sh(cmd, cwd='/repo'):
    return subprocess.run(cmd, shell=True, cwd=cwd, capture_output=True, text=True)
def restore():
    sh('git checkout -- . && git clean -fdq src')
assert sh('git status --porcelain --untracked-files=no').stdout.strip() == '', 'repo not clean'
notes = open(os.path.join(d, 'notes.md')).read()
conf = {}
try:
    # the demonstration is tried with the default features first, then with the jit feature (jit-only behaviour)
    for feat in ('', '--features jit'):
        restore()
        assert sh('git apply %s/demo.diff' % d).returncode == 0, 'demo.diff does not apply'
        r0 = sh('cargo test --offline %s 2>&1' % feat)
        conf['demo_only'] = ' '.join(re.findall(r'^test result.*$', r0.stdout, re.M)) or ('exit %d' % r0.returncode)
        assert sh('git apply %s/patch.diff' % d).returncode == 0, 'patch.diff does not apply on demo'
        r1 = sh('cargo test --offline %s 2>&1' % feat)
        conf['demo_plus_patch'] = ' '.join(re.findall(r'^test result.*$', r1.stdout, re.M)) or ('exit %d (test binary aborted)' % r1.returncode)
        conf['demo_exit'] = [r0.returncode, r1.returncode]
        conf['features'] = feat or 'default'
        if r0.returncode == 0 and r1.returncode != 0:
            break
    restore()
    assert sh('git apply %s/patch.diff' % d).returncode == 0
    r = sh('cargo test --offline 2>&1 | grep -E "^test result"').stdout
    conf['patch_only_suite'] = r.strip()
    ok = conf['demo_exit'] [0] == 0 and conf['demo_exit'][1] != 0 and '98 passed; 0 failed' in conf['patch_only_suite']
    conf['confirmed'] = bool(ok)
    p = subprocess.run(['./check', prop, '--tier', tier], cwd=ROOT, capture_output=True, text=True)
    out = p.stdout
finally:
    restore()
lines = [l for l in out.splitlines() if re.search(r'VIOLATION|UNDECIDED|obligations discharged|^  obligation ', l)]
outcome = {0: 'missed', 1: 'caught', 2: 'undecided'}.get(p.returncode, 'error')
meta = {'id': sid, 'property': prop,
        'source': 'independent sub-agent given only the property text and a scratch git worktree of /repo',
        'needs_to_manifest': notes[:1500],
        'confirmation': conf,
        'ran': 'tools/eval_seed.py %s %s --tier %s   (git apply seeded/%s/patch.diff in /repo; ./check %s --tier %s; git checkout -- .)' % (sid, prop, tier, sid, prop, tier),
        'outcome': outcome, 'tier': tier, 'check_exit': p.returncode, 'check_output': lines[:8]}
old = os.path.join(d, 'meta.json')
if os.path.exists(old):
    try:
        o = json.load(open(old))
        if o.get('comment'): meta['comment'] = o['comment']
    except Exception: pass
json.dump(meta, open(old, 'w'), indent=1)
print(sid, prop, outcome, conf.get('confirmed'), '|', ' ; '.join(lines[:3])[:300])
