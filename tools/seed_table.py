#!/usr/bin/env python3
"""Regenerate the seeded-change table of DESIGN.md (section 9.6) from seeded/*/meta.json."""
import os, json, glob, re
ROOT = os.path.dirname(os.path.dirname(os.path.abspath(__file__)))
rows = []
for m in sorted(glob.glob(os.path.join(ROOT, 'seeded', '*', 'meta.json'))):
    d = json.load(open(m))
    first = d.get('needs_to_manifest', '').strip().split('\n')
    what = ''
    patch = open(os.path.join(os.path.dirname(m), 'patch.diff')).read()
    files = sorted(set(re.findall(r'^\+\+\+ b/(\S+)', patch, re.M)))
    det = d.get('detected_by') or ' '.join(d.get('check_output', [])[1:3])
    det = re.sub(r'replay=\S+', '', det)
    det = re.sub(r'\s+', ' ', det).strip()[:170]
    rows.append('| %s | %s | %s | %s (%s) | %s |' % (d['id'], d['property'], ', '.join(files), d['outcome'], d.get('tier', 'quick'), (d.get('comment', '') + ' ' + det).strip().replace('|', '/')))
table = '\n| seed | property | files changed | outcome (tier) | obligation that reports it / why not |\n|---|---|---|---|---|\n' + '\n'.join(rows) + '\n'
outs = [json.load(open(m))['outcome'] for m in sorted(glob.glob(os.path.join(ROOT, 'seeded', '*', 'meta.json')))]
n = len(outs); c = outs.count('caught'); u = outs.count('undecided'); mi = outs.count('missed')
table += '\n%d seeded changes: %d caught (VIOLATION), %d undecided (exit 2: not a pass, not an alarm), %d missed (exit 0).\n' % (n, c, u, mi)
p = os.path.join(ROOT, 'DESIGN.md'); s = open(p).read()
if 'SEED_TABLE_PLACEHOLDER' in s:
    s = s.replace('SEED_TABLE_PLACEHOLDER', '<!-- seed table begin -->' + table + '<!-- seed table end -->')
else:
    s = re.sub(r'<!-- seed table begin -->.*<!-- seed table end -->', lambda _: '<!-- seed table begin -->' + table + '<!-- seed table end -->', s, flags=re.S)
open(p, 'w').write(s)
print(n, c, u, mi)
