#!/usr/bin/env python3
"""tools/eval_benign.py <change id> <property> [<property> ...] [--src /tmp/benign]
A behaviour-preserving change (refactoring) written by an independent sub-agent: apply it to /repo, confirm the test suite,
run the listed checks, restore /repo, record the exit codes in benign/<id>/meta.json.
Expected: exit 0 (still proved) or exit 2 (undecided: the proof's anchors / hints no longer fit) - never exit 1."""
import sys, os, json, subprocess, shutil, re
ROOT = os.path.dirname(os.path.dirname(os.path.abspath(__file__)))
args = [a for a in sys.argv[1:]]
src = '/tmp/benign'
if '--src' in args:
    i = args.index('--src'); src = args[i + 1]; del args[i:i + 2]
cid, props = args[0], args[1:]
d = os.path.join(ROOT, 'benign', cid)
os.makedirs(d, exist_ok=True)
for f in ('patch.diff', 'notes.md'):
    if not os.path.exists(os.path.join(d, f)):
        shutil.copy(os.path.join(src, cid, f), d)
def sh(cmd, cwd='/repo'):
    return subprocess.run(cmd, shell=True, cwd=cwd, capture_output=True, text=True)
assert sh('git status --porcelain --untracked-files=no').stdout.strip() == '', 'repo not clean'
res = {}
try:
    assert sh('git apply %s/patch.diff' % d).returncode == 0, 'patch does not apply'
    t = sh('cargo test --offline 2>&1')
    suite = ' '.join(re.findall(r'^test result.*$', t.stdout, re.M))
    for p in props:
        r = subprocess.run(['./check', p, '--tier', 'quick'], cwd=ROOT, capture_output=True, text=True)
        lines = [l for l in r.stdout.splitlines() if re.search(r'VIOLATION|UNDECIDED|obligations discharged|^  obligation ', l)]
        res[p] = {'exit': r.returncode, 'output': lines[:6]}
finally:
    sh('git checkout -- . && git clean -fdq src')
files = sorted(set(re.findall(r'^\+\+\+ b/(\S+)', open(os.path.join(d, 'patch.diff')).read(), re.M)))
meta = {'id': cid, 'kind': 'behaviour-preserving change by an independent sub-agent', 'files': files, 'suite': suite,
        'what': open(os.path.join(d, 'notes.md')).read()[:1200], 'checks': res,
        'false_alarm': any(v['exit'] == 1 for v in res.values())}
json.dump(meta, open(os.path.join(d, 'meta.json'), 'w'), indent=1)
print(cid, files, suite[:40], {p: v['exit'] for p, v in res.items()}, 'FALSE ALARM' if meta['false_alarm'] else '')
for p, v in res.items():
    if v['exit'] != 0:
        print('  ', p, ' ; '.join(v['output'][:3])[:400])
