#!/usr/bin/env python3
"""tools/regress_seeds.py [--all]: re-run the check of every recorded seed whose reporting obligation was a Verus one (the
Kani-decided ones only with --all), WITHOUT repeating the cargo-test confirmation, and compare with the recorded outcome."""
import sys, os, json, subprocess, glob, re
ROOT = os.path.dirname(os.path.dirname(os.path.abspath(__file__)))
def sh(cmd, cwd='/repo'):
    return subprocess.run(cmd, shell=True, cwd=cwd, capture_output=True, text=True)
assert sh('git status --porcelain --untracked-files=no').stdout.strip() == '', 'repo not clean'
bad = []
for mp in sorted(glob.glob(os.path.join(ROOT, 'seeded', '*', 'meta.json'))):
    m = json.load(open(mp))
    out = ' '.join(m.get('check_output', []))
    if '--all' not in sys.argv and 'verus:' not in out:
        continue
    only = [a for a in sys.argv[1:] if not a.startswith('--')]
    if only and m['property'] not in only:
        continue
    d = os.path.dirname(mp)
    try:
        assert sh('git apply %s/patch.diff' % d).returncode == 0
        p = subprocess.run(['./check', m['property'], '--tier', 'quick'], cwd=ROOT, capture_output=True, text=True)
    finally:
        sh('git checkout -- . && git clean -fdq src')
    now = {0: 'missed', 1: 'caught', 2: 'undecided'}.get(p.returncode, 'error')
    flag = '' if now == m['outcome'] else '   <<<<<< CHANGED (was %s)' % m['outcome']
    print(m['id'], m['property'], now, flag, flush=True)
    if flag:
        bad.append(m['id'])
print('changed:', bad)
