#!/usr/bin/env python3
"""Records, on the CLEAN pinned tree, which variables the head of every annotated loop mentions (specs/loop_heads.json, R14)."""
import sys, os, json, subprocess
ROOT = os.path.dirname(os.path.dirname(os.path.abspath(__file__)))
sys.path.insert(0, ROOT)
from lib import vx, registry
assert subprocess.run('git -C /repo status --porcelain --untracked-files=no', shell=True, capture_output=True, text=True).stdout.strip() == '', 'repo not clean'
out = {}
for unit in sorted(registry.UNITS):
    p = os.path.join(ROOT, 'specs', unit + '.vspec')
    if not os.path.exists(p):
        continue
    vx._SRC_CACHE.clear()
    u = vx.process_template(p, unit)
    if u.loop_heads:
        out[unit] = u.loop_heads
json.dump(out, open(os.path.join(ROOT, 'specs', 'loop_heads.json'), 'w'), indent=1, sort_keys=True)
print({k: len(v) for k, v in out.items()})
