//! Recording bus.  Under Kani it replaces memory_read_byte / memory_write_byte by #[kani::stub]; in the native
//! replay it is installed through the cfg(gb_dynarec_verif) hook of /repo/src/mem.rs.  Reads are answered from a
//! two-entry association {a0 -> v0, a1 -> v1} plus a default: general for one instruction, because no SM83
//! instruction reads more than two addresses and none reads an address after writing it (asserted by the ISA checks).
use crate::mem::MemoryAreas;

#[derive(Clone, Copy, PartialEq, Eq, Debug)]
pub struct Ev { pub write: bool, pub addr: u16, pub val: u8 }
pub const MAXEV: usize = 4;
pub struct Bus { pub ev: [Ev; MAXEV], pub n: usize, pub a0: u16, pub v0: u8, pub a1: u16, pub v1: u8, pub other: u8 }
pub static mut BUS: Bus = Bus { ev: [Ev { write: false, addr: 0, val: 0 }; MAXEV], n: 0, a0: 0, v0: 0, a1: 0, v1: 0, other: 0 };

pub fn value(addr: u16) -> u8 { unsafe { if addr == BUS.a0 { BUS.v0 } else if addr == BUS.a1 { BUS.v1 } else { BUS.other } } }
fn log(write: bool, addr: u16, val: u8) { unsafe { if BUS.n < MAXEV { BUS.ev[BUS.n] = Ev { write, addr, val }; } BUS.n += 1; } }
pub fn hook_read(addr: u16) -> u8 { let v = value(addr); log(false, addr, v); v }
pub fn hook_write(addr: u16, value: u8) { log(true, addr, value); }
pub extern "sysv64" fn stub_read(_a: *const MemoryAreas, addr: u16) -> u8 { hook_read(addr) }
pub extern "sysv64" fn stub_write(_a: *mut MemoryAreas, addr: u16, value: u8) { hook_write(addr, value) }

pub fn setup<S: crate::src_any::Src>(s: &mut S) {
  unsafe { BUS.a0 = s.u16(); BUS.v0 = s.u8(); BUS.a1 = s.u16(); BUS.v1 = s.u8(); BUS.other = s.u8(); BUS.n = 0; }
}
pub fn reset_log() { unsafe { BUS.n = 0; } }
pub fn save() -> (u16, u8, u16, u8, u8) { unsafe { (BUS.a0, BUS.v0, BUS.a1, BUS.v1, BUS.other) } }
pub fn restore(b: (u16, u8, u16, u8, u8)) { unsafe { BUS.a0 = b.0; BUS.v0 = b.1; BUS.a1 = b.2; BUS.v1 = b.3; BUS.other = b.4; } }
pub fn snapshot() -> ([Ev; MAXEV], usize) { unsafe { (BUS.ev, BUS.n) } }
/// native replay: route the real bus functions to this recording bus
#[cfg(not(kani))]
pub fn install_hooks() { unsafe { crate::mem::verif_hook::READ_OVERRIDE = Some(hook_read); crate::mem::verif_hook::WRITE_OVERRIDE = Some(hook_write); } }
#[cfg(not(kani))]
pub fn install_log_only() { unsafe { crate::mem::verif_hook::WRITE_TAP = Some(hook_write); } }
#[cfg(not(kani))]
pub fn remove_hooks() { unsafe { crate::mem::verif_hook::READ_OVERRIDE = None; crate::mem::verif_hook::WRITE_OVERRIDE = None; crate::mem::verif_hook::WRITE_TAP = None; } }
