//! SM83 reference semantics written from the instruction-set definition (algorithmic decode by
//! x/y/z/p/q fields), independent of /repo's decoder table and interpreter.  
#![allow(dead_code)]

#[derive(Clone, Copy, PartialEq, Eq, Debug)]
pub struct Cpu { pub a: u8, pub f: u8, pub b: u8, pub c: u8, pub d: u8, pub e: u8, pub h: u8, pub l: u8, pub sp: u16, pub pc: u16 }

#[derive(Clone, Copy, PartialEq, Eq, Debug)]
pub enum Status { Normal, Stop, Halt, Di, Ei, EiImmediate }

#[derive(Clone, Copy, PartialEq, Eq, Debug)]
pub struct BusOp { pub write: bool, pub addr: u16, pub val: u8 }

pub const MAX_OPS: usize = 4;

#[derive(Clone, Copy, PartialEq, Eq, Debug)]
pub struct Out {
  pub cpu: Cpu,
  pub len: u16,          // encoded length
  pub mcycles: u32,      // machine cycles actually taken
  pub status: Status,
  pub block_end: bool,
  pub undefined: bool,
  pub ops: [BusOp; MAX_OPS],
  pub nops: usize,
}

pub const Z: u8 = 0x80; pub const N: u8 = 0x40; pub const H: u8 = 0x20; pub const C: u8 = 0x10;

pub fn is_undefined(op: u8) -> bool {
  matches!(op, 0xd3 | 0xdb | 0xdd | 0xe3 | 0xe4 | 0xeb | 0xec | 0xed | 0xf4 | 0xfc | 0xfd)
}

struct M<'a, R: FnMut(u16) -> u8> { cpu: Cpu, ops: [BusOp; MAX_OPS], nops: usize, read: &'a mut R }

impl<'a, R: FnMut(u16) -> u8> M<'a, R> {
  fn rd(&mut self, addr: u16) -> u8 {
    let v = (self.read)(addr);
    if self.nops < MAX_OPS { self.ops[self.nops] = BusOp { write: false, addr, val: v }; }
    self.nops += 1;
    v
  }
  fn wr(&mut self, addr: u16, val: u8) {
    if self.nops < MAX_OPS { self.ops[self.nops] = BusOp { write: true, addr, val }; }
    self.nops += 1;
  }
  fn hl(&self) -> u16 { ((self.cpu.h as u16) << 8) | self.cpu.l as u16 }
  fn set_hl(&mut self, v: u16) { self.cpu.h = (v >> 8) as u8; self.cpu.l = v as u8; }
  fn bc(&self) -> u16 { ((self.cpu.b as u16) << 8) | self.cpu.c as u16 }
  fn de(&self) -> u16 { ((self.cpu.d as u16) << 8) | self.cpu.e as u16 }
  fn get_r(&mut self, i: u8) -> u8 {
    match i { 0 => self.cpu.b, 1 => self.cpu.c, 2 => self.cpu.d, 3 => self.cpu.e, 4 => self.cpu.h, 5 => self.cpu.l,
              6 => { let a = self.hl(); self.rd(a) }, _ => self.cpu.a }
  }
  fn set_r(&mut self, i: u8, v: u8) {
    match i { 0 => self.cpu.b = v, 1 => self.cpu.c = v, 2 => self.cpu.d = v, 3 => self.cpu.e = v, 4 => self.cpu.h = v, 5 => self.cpu.l = v,
              6 => { let a = self.hl(); self.wr(a, v) }, _ => self.cpu.a = v }
  }
  fn get_rp(&self, p: u8) -> u16 { match p { 0 => self.bc(), 1 => self.de(), 2 => self.hl(), _ => self.cpu.sp } }
  fn set_rp(&mut self, p: u8, v: u16) {
    match p { 0 => { self.cpu.b = (v >> 8) as u8; self.cpu.c = v as u8; }, 1 => { self.cpu.d = (v >> 8) as u8; self.cpu.e = v as u8; },
              2 => self.set_hl(v), _ => self.cpu.sp = v }
  }
  fn cond(&self, y: u8) -> bool {
    match y & 3 { 0 => self.cpu.f & Z == 0, 1 => self.cpu.f & Z != 0, 2 => self.cpu.f & C == 0, _ => self.cpu.f & C != 0 }
  }
  fn flags(&mut self, z: bool, n: bool, h: bool, c: bool) {
    self.cpu.f = (if z { Z } else { 0 }) | (if n { N } else { 0 }) | (if h { H } else { 0 }) | (if c { C } else { 0 });
  }
  fn alu(&mut self, y: u8, v: u8) {
    let a = self.cpu.a; let cin = if self.cpu.f & C != 0 { 1u16 } else { 0 };
    match y {
      0 | 1 => { let ci = if y == 1 { cin } else { 0 };
        let r = a as u16 + v as u16 + ci; let h = (a & 15) as u16 + (v & 15) as u16 + ci > 15;
        self.cpu.a = r as u8; self.flags(r as u8 == 0, false, h, r > 0xff); },
      2 | 3 | 7 => { let ci = if y == 3 { cin } else { 0 };
        let r = (a as u16).wrapping_sub(v as u16).wrapping_sub(ci); let h = ((a & 15) as u16) < (v & 15) as u16 + ci;
        let c = (a as u16) < v as u16 + ci;
        if y != 7 { self.cpu.a = r as u8; }
        self.flags(r as u8 == 0, true, h, c); },
      4 => { let r = a & v; self.cpu.a = r; self.flags(r == 0, false, true, false); },
      5 => { let r = a ^ v; self.cpu.a = r; self.flags(r == 0, false, false, false); },
      _ => { let r = a | v; self.cpu.a = r; self.flags(r == 0, false, false, false); },
    }
  }
  fn push16(&mut self, v: u16) {
    self.cpu.sp = self.cpu.sp.wrapping_sub(1); let s = self.cpu.sp; self.wr(s, (v >> 8) as u8);
    self.cpu.sp = self.cpu.sp.wrapping_sub(1); let s = self.cpu.sp; self.wr(s, v as u8);
  }
  fn pop16(&mut self) -> u16 {
    let s = self.cpu.sp; let lo = self.rd(s) as u16; self.cpu.sp = s.wrapping_add(1);
    let s = self.cpu.sp; let hi = self.rd(s) as u16; self.cpu.sp = s.wrapping_add(1);
    (hi << 8) | lo
  }
  fn add_sp_e(&mut self, e: u8) -> u16 {
    let sp = self.cpu.sp;
    let r = sp.wrapping_add(e as i8 as i16 as u16);
    let h = (sp & 0x0f) + (e as u16 & 0x0f) > 0x0f;
    let c = (sp & 0xff) + (e as u16) > 0xff;
    self.flags(false, false, h, c);
    r
  }
}

/// Execute the instruction whose bytes are `b` (b[1], b[2] are only meaningful if the encoding uses them).
pub fn exec<R: FnMut(u16) -> u8>(b: [u8; 3], cpu: Cpu, read: &mut R) -> Out {
  let mut m = M { cpu, ops: [BusOp { write: false, addr: 0, val: 0 }; MAX_OPS], nops: 0, read };
  let op = b[0];
  let (x, y, z) = (op >> 6, (op >> 3) & 7, op & 7);
  let (p, q) = (y >> 1, y & 1);
  let d16 = ((b[2] as u16) << 8) | b[1] as u16;
  let mut len: u16 = 1; let mut cyc: u32 = 1; let mut status = Status::Normal; let mut block_end = false; let mut undefined = false;
  let mut new_pc: Option<u16> = None;
  let pc = cpu.pc;
  match x {
    0 => match z {
      0 => match y {
        0 => {},
        1 => { len = 3; cyc = 5; let sp = m.cpu.sp; m.wr(d16, sp as u8); m.wr(d16.wrapping_add(1), (sp >> 8) as u8); },
        2 => { len = 2; cyc = 1; status = Status::Stop; block_end = true; },
        _ => { len = 2; block_end = true;
               let taken = y == 3 || m.cond(y - 4);
               cyc = if taken { 3 } else { 2 };
               if taken { new_pc = Some(pc.wrapping_add(2).wrapping_add(b[1] as i8 as i16 as u16)); } },
      },
      1 => if q == 0 { len = 3; cyc = 3; m.set_rp(p, d16); } else {
             cyc = 2; let hl = m.hl(); let v = m.get_rp(p); let r = hl as u32 + v as u32;
             let h = (hl & 0xfff) + (v & 0xfff) > 0xfff; let zf = m.cpu.f & Z != 0;
             m.set_hl(r as u16); m.flags(zf, false, h, r > 0xffff); },
      2 => { cyc = 2;
             let addr = match p { 0 => m.bc(), 1 => m.de(), _ => m.hl() };
             if q == 0 { let a = m.cpu.a; m.wr(addr, a); } else { m.cpu.a = m.rd(addr); }
             if p == 2 { m.set_hl(addr.wrapping_add(1)); } else if p == 3 { m.set_hl(addr.wrapping_sub(1)); } },
      3 => { cyc = 2; let v = m.get_rp(p); m.set_rp(p, if q == 0 { v.wrapping_add(1) } else { v.wrapping_sub(1) }); },
      4 | 5 => { cyc = if y == 6 { 3 } else { 1 };
             let v = m.get_r(y); let c = m.cpu.f & C != 0;
             let r = if z == 4 { v.wrapping_add(1) } else { v.wrapping_sub(1) };
             let h = if z == 4 { v & 15 == 15 } else { v & 15 == 0 };
             m.set_r(y, r); m.flags(r == 0, z == 5, h, c); },
      6 => { len = 2; cyc = if y == 6 { 3 } else { 2 }; m.set_r(y, b[1]); },
      _ => match y {
        0 => { let a = m.cpu.a; let c = a >> 7; m.cpu.a = (a << 1) | c; m.flags(false, false, false, c != 0); },
        1 => { let a = m.cpu.a; let c = a & 1; m.cpu.a = (a >> 1) | (c << 7); m.flags(false, false, false, c != 0); },
        2 => { let a = m.cpu.a; let ci = (m.cpu.f & C != 0) as u8; m.cpu.a = (a << 1) | ci; m.flags(false, false, false, a & 0x80 != 0); },
        3 => { let a = m.cpu.a; let ci = (m.cpu.f & C != 0) as u8; m.cpu.a = (a >> 1) | (ci << 7); m.flags(false, false, false, a & 1 != 0); },
        4 => { // DAA
          let (n, h, c) = (m.cpu.f & N != 0, m.cpu.f & H != 0, m.cpu.f & C != 0);
          let mut a = m.cpu.a; let mut carry = c;
          if !n { if c || a > 0x99 { a = a.wrapping_add(0x60); carry = true; } if h || (a & 0x0f) > 0x09 { a = a.wrapping_add(0x06); } }
          else { if c { a = a.wrapping_sub(0x60); } if h { a = a.wrapping_sub(0x06); } }
          m.cpu.a = a; m.flags(a == 0, n, false, carry); },
        5 => { m.cpu.a = !m.cpu.a; m.cpu.f |= N | H; },
        6 => { let zf = m.cpu.f & Z != 0; m.flags(zf, false, false, true); },
        _ => { let zf = m.cpu.f & Z != 0; let c = m.cpu.f & C != 0; m.flags(zf, false, false, !c); },
      },
    },
    1 => if op == 0x76 { status = Status::Halt; block_end = true; } else {
           cyc = if y == 6 || z == 6 { 2 } else { 1 }; let v = m.get_r(z); m.set_r(y, v); },
    2 => { cyc = if z == 6 { 2 } else { 1 }; let v = m.get_r(z); m.alu(y, v); },
    _ => match z {
      0 => match y {
        0..=3 => { block_end = true; if m.cond(y) { cyc = 5; let t = m.pop16(); new_pc = Some(t); } else { cyc = 2; } },
        4 => { len = 2; cyc = 3; let a = m.cpu.a; m.wr(0xff00 | b[1] as u16, a); },
        5 => { len = 2; cyc = 4; let r = m.add_sp_e(b[1]); m.cpu.sp = r; },
        6 => { len = 2; cyc = 3; m.cpu.a = m.rd(0xff00 | b[1] as u16); },
        _ => { len = 2; cyc = 3; let r = m.add_sp_e(b[1]); m.set_hl(r); },
      },
      1 => if q == 0 { cyc = 3; let v = m.pop16();
             match p { 0 => { m.cpu.b = (v >> 8) as u8; m.cpu.c = v as u8; }, 1 => { m.cpu.d = (v >> 8) as u8; m.cpu.e = v as u8; },
                       2 => m.set_hl(v), _ => { m.cpu.a = (v >> 8) as u8; m.cpu.f = v as u8 & 0xf0; } } }
           else { match p {
             0 => { cyc = 4; block_end = true; let t = m.pop16(); new_pc = Some(t); },
             1 => { cyc = 4; block_end = true; let t = m.pop16(); new_pc = Some(t); status = Status::EiImmediate; },
             2 => { cyc = 1; block_end = true; new_pc = Some(m.hl()); },
             _ => { cyc = 2; m.cpu.sp = m.hl(); },
           } },
      2 => match y {
        0..=3 => { len = 3; block_end = true; if m.cond(y) { cyc = 4; new_pc = Some(d16); } else { cyc = 3; } },
        4 => { cyc = 2; let a = m.cpu.a; let c = m.cpu.c; m.wr(0xff00 | c as u16, a); },
        5 => { len = 3; cyc = 4; let a = m.cpu.a; m.wr(d16, a); },
        6 => { cyc = 2; let c = m.cpu.c; m.cpu.a = m.rd(0xff00 | c as u16); },
        _ => { len = 3; cyc = 4; m.cpu.a = m.rd(d16); },
      },
      3 => match y {
        0 => { len = 3; cyc = 4; block_end = true; new_pc = Some(d16); },
        1 => { // CB prefix
          len = 2; let c = b[1]; let (cx, cy, cz) = (c >> 6, (c >> 3) & 7, c & 7);
          cyc = if cz == 6 { if cx == 1 { 3 } else { 4 } } else { 2 };
          let v = m.get_r(cz);
          match cx {
            0 => { let ci = (m.cpu.f & C != 0) as u8;
              let (r, co) = match cy {
                0 => ((v << 1) | (v >> 7), v >> 7), 1 => ((v >> 1) | (v << 7), v & 1),
                2 => ((v << 1) | ci, v >> 7), 3 => ((v >> 1) | (ci << 7), v & 1),
                4 => (v << 1, v >> 7), 5 => ((v >> 1) | (v & 0x80), v & 1),
                6 => ((v << 4) | (v >> 4), 0), _ => (v >> 1, v & 1) };
              m.set_r(cz, r); m.flags(r == 0, false, false, co != 0); },
            1 => { let c0 = m.cpu.f & C != 0; m.flags(v & (1 << cy) == 0, false, true, c0); },
            2 => { m.set_r(cz, v & !(1 << cy)); },
            _ => { m.set_r(cz, v | (1 << cy)); },
          } },
        6 => { status = Status::Di; block_end = true; },
        7 => { status = Status::Ei; block_end = true; },
        _ => { undefined = true; },
      },
      4 => if y < 4 { len = 3; block_end = true;
             if m.cond(y) { cyc = 6; m.push16(pc.wrapping_add(3)); new_pc = Some(d16); } else { cyc = 3; } }
           else { undefined = true; },
      5 => if q == 0 { cyc = 4;
             let v = match p { 0 => m.bc(), 1 => m.de(), 2 => m.hl(), _ => ((m.cpu.a as u16) << 8) | m.cpu.f as u16 };
             m.push16(v); }
           else if p == 0 { len = 3; cyc = 6; block_end = true; m.push16(pc.wrapping_add(3)); new_pc = Some(d16); }
           else { undefined = true; },
      6 => { len = 2; cyc = 2; m.alu(y, b[1]); },
      _ => { cyc = 4; block_end = true; m.push16(pc.wrapping_add(1)); new_pc = Some((y as u16) * 8); },
    },
  }
  m.cpu.pc = match new_pc { Some(t) => t, None => pc.wrapping_add(len) };
  Out { cpu: m.cpu, len, mcycles: cyc, status, block_end, undefined, ops: m.ops, nops: m.nops }
}
