//! Native entry points: template derivation for the JIT harness generator and replay of verifier counterexamples
//! against the real code.
use crate::src_any::Replay;

fn hexbytes(s: &str) -> Vec<u8> { (0..s.len() / 2).map(|i| u8::from_str_radix(&s[2 * i..2 * i + 2], 16).unwrap()).collect() }

pub fn all_encodings() -> Vec<(u8, Option<u8>)> {
  let mut v = vec![];
  for b0 in 0..=255u8 { if b0 == 0xcb || crate::sm83::is_undefined(b0) { continue; } v.push((b0, None)); }
  for b1 in 0..=255u8 { v.push((0xcb, Some(b1))); }
  v
}

pub fn main() {
  let args: Vec<String> = std::env::args().collect();
  if args.len() < 2 { eprintln!("usage: gbverif tmpl-all | replay-isa <b0> <b1|-> <hex>... | replay-jit ..."); std::process::exit(2); }
  match args[1].as_str() {
    "tmpl-all" => tmpl_all(),
    "replay-isa" => replay_isa(&args[2..]),
    #[cfg(unix)]
    "replay-jit" => crate::native_jit::replay_jit(&args[2..]),
    #[cfg(unix)]
    "replay-frame" => crate::native_jit::replay_frame(&args[2..]),
    #[cfg(unix)]
    "replay-irq" => crate::native_jit::replay_irq(&args[2..]),
    _ => { eprintln!("unknown command"); std::process::exit(2); }
  }
}

/// For every defined encoding and six immediate probes: the bytes the real emitter produces.
fn tmpl_all() {
  use crate::mem;
  println!("fn rb={:x} wb={:x} ww={:x} rw={:x} pw={:x}", mem::memory_read_byte as usize, mem::memory_write_byte as usize,
           mem::memory_write_word as usize, mem::memory_read_word as usize, mem::memory_push_word as usize);
  {
    let mut b = [0u8; 128];
    let n = crate::emitter::Emitter::write_prelude_function(&mut b);
    println!("frame pre {}", b[..n].iter().map(|x| format!("{:02x}", x)).collect::<String>());
    let n = crate::emitter::Emitter::write_epilogue_function(&mut b);
    println!("frame epi {}", b[..n].iter().map(|x| format!("{:02x}", x)).collect::<String>());
    let e = crate::emitter::Emitter::new(crate::jit::MEMPTR as *const mem::MemoryAreas);
    let n = e.encode_epilogue(&mut b);
    println!("frame bepi {}", b[..n].iter().map(|x| format!("{:02x}", x)).collect::<String>());
  }
  let probes: [(u8, u8); 6] = [(0x00, 0x00), (0xff, 0xff), (0x55, 0xaa), (0xa5, 0x3c), (0x01, 0x80), (0x7f, 0xfe)];
  // an emitter that consults the bus while translating must not crash the derivation: answer from the recording bus
  crate::bus::install_hooks();
  let emitter = crate::emitter::Emitter::new(crate::jit::MEMPTR as *const mem::MemoryAreas);
  for (b0, cb) in all_encodings() {
    for (x, y) in probes.iter() {
      let bytes = [b0, cb.unwrap_or(*x), *y];
      let (op, len, _) = crate::decoder::decode(&bytes);
      let mut buf = [0u8; 512];
      let n = emitter.encode_op(op, len, &mut buf);
      let hex: String = buf[..n].iter().map(|b| format!("{:02x}", b)).collect();
      println!("t {:02x} {} {:02x} {:02x} {}", b0, cb.map(|c| format!("{:02x}", c)).unwrap_or("-".into()), bytes[1], bytes[2], hex);
    }
  }
}

/// replay-isa <b0> <b1 or -> <value>...   (values: little-endian hex strings in the order kani::any() was called)
fn replay_isa(a: &[String]) {
  let b0 = u8::from_str_radix(&a[0], 16).unwrap();
  let cb = if a[1] == "-" { None } else { Some(u8::from_str_radix(&a[1], 16).unwrap()) };
  let vals: Vec<Vec<u8>> = a[2..].iter().map(|s| hexbytes(s)).collect();
  let mut src = Replay::new(vals);
  crate::bus::install_hooks();
  let bytes = [b0, cb.unwrap_or(0), 0];
  let r = std::panic::catch_unwind(std::panic::AssertUnwindSafe(|| crate::isa::check_interp(bytes, [cb.is_none(), true], &mut src)));
  crate::bus::remove_hooks();
  match r {
    Ok(o) => {
      let failed: Vec<&str> = (0..crate::isa::NCHECK).filter(|k| !o.ok[*k]).map(|k| crate::isa::CHECK_NAMES[k]).collect();
      println!("{{\"engine\":\"isa\",\"panicked\":false,\"assumption_violated\":{},\"values_exhausted\":{},\"failed_checks\":{:?},\"real_code_result\":{{\"af\":{},\"bc\":{},\"de\":{},\"hl\":{},\"sp\":{},\"pc\":{},\"cycles\":{},\"status\":{}}}}}",
               src.assumption_violated, src.exhausted, failed, o.detail[0], o.detail[1], o.detail[2], o.detail[3], o.detail[4], o.detail[5], o.detail[6], o.detail[7]);
    },
    Err(_) => println!("{{\"engine\":\"isa\",\"panicked\":true,\"failed_checks\":[\"the real interpreter panicked on this input\"]}}"),
  }
}
