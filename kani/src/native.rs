//! Native entry points: template derivation for the JIT harness generator and replay of verifier counterexamples
//! against the real code.
use crate::src_any::Replay;

fn hexbytes(s: &str) -> Vec<u8> { (0..s.len() / 2).map(|i| u8::from_str_radix(&s[2 * i..2 * i + 2], 16).unwrap()).collect() }

pub fn all_encodings() -> Vec<(u8, Option<u8>)> {
  let mut v = vec![];
  for b0 in 0..=255u8 { if b0 == 0xcb || crate::sm83::is_undefined(b0) { continue; } v.push((b0, None)); }
  for b1 in 0..=255u8 { v.push((0xcb, Some(b1))); }
  v
}

pub fn main() {
  let args: Vec<String> = std::env::args().collect();
  if args.len() < 2 { eprintln!("usage: gbverif tmpl-all | replay-isa <b0> <b1|-> <hex>... | replay-jit ..."); std::process::exit(2); }
  match args[1].as_str() {
    "tmpl-all" => tmpl_all(),
    "tmpl-lens" => tmpl_lens(&args[2..]),
    "tmpl-probe" => tmpl_probe(&args[2..]),
    "replay-isa" => replay_isa(&args[2..]),
    "replay-strs" => replay_strs(&args[2..]),
    #[cfg(unix)]
    "replay-serial" => replay_serial(&args[2..]),
    #[cfg(unix)]
    "replay-jit" => crate::native_jit::replay_jit(&args[2..]),
    #[cfg(unix)]
    "replay-frame" => crate::native_jit::replay_frame(&args[2..]),
    #[cfg(unix)]
    "replay-irq" => crate::native_jit::replay_irq(&args[2..]),
    _ => { eprintln!("unknown command"); std::process::exit(2); }
  }
}

/// For every defined encoding and six immediate probes: the bytes the real emitter produces.
fn tmpl_all() {
  use crate::mem;
  println!("fn rb={:x} wb={:x} ww={:x} rw={:x} pw={:x}", mem::memory_read_byte as usize, mem::memory_write_byte as usize,
           mem::memory_write_word as usize, mem::memory_read_word as usize, mem::memory_push_word as usize);
  {
    let mut b = [0u8; 128];
    let n = crate::emitter::Emitter::write_prelude_function(&mut b);
    println!("frame pre {}", b[..n].iter().map(|x| format!("{:02x}", x)).collect::<String>());
    let n = crate::emitter::Emitter::write_epilogue_function(&mut b);
    println!("frame epi {}", b[..n].iter().map(|x| format!("{:02x}", x)).collect::<String>());
    let e = crate::emitter::Emitter::new(crate::jit::MEMPTR as *const mem::MemoryAreas);
    let n = e.encode_epilogue(&mut b);
    println!("frame bepi {}", b[..n].iter().map(|x| format!("{:02x}", x)).collect::<String>());
  }
  let probes: [(u8, u8); 6] = [(0x00, 0x00), (0xff, 0xff), (0x55, 0xaa), (0xa5, 0x3c), (0x01, 0x80), (0x7f, 0xfe)];
  // an emitter that consults the bus while translating must not crash the derivation: answer from the recording bus
  crate::bus::install_hooks();
  let emitter = crate::emitter::Emitter::new(crate::jit::MEMPTR as *const mem::MemoryAreas);
  for (b0, cb) in all_encodings() {
    for (pi, (x, y)) in probes.iter().enumerate() {
      // a different memory content for every probe: a byte the emitter copies out of guest memory at translation time
      // then shows up as "not a function of the immediates" instead of looking like a constant
      crate::bus::restore((0, 0, 0, 0, (0x3d * (pi as u32) + 0x17) as u8));
      let bytes = [b0, cb.unwrap_or(*x), *y];
      let (op, len, _) = crate::decoder::decode(&bytes);
      let mut buf = [0u8; 512];
      let n = emitter.encode_op(op, len, &mut buf);
      let hex: String = buf[..n].iter().map(|b| format!("{:02x}", b)).collect();
      println!("t {:02x} {} {:02x} {:02x} {}", b0, cb.map(|c| format!("{:02x}", c)).unwrap_or("-".into()), bytes[1], bytes[2], hex);
    }
  }
}

/// replay-isa <b0> <b1 or -> <value>...   (values: little-endian hex strings in the order kani::any() was called)
fn replay_isa(a: &[String]) {
  let b0 = u8::from_str_radix(&a[0], 16).unwrap();
  let cb = if a[1] == "-" { None } else { Some(u8::from_str_radix(&a[1], 16).unwrap()) };
  let vals: Vec<Vec<u8>> = a[2..].iter().map(|s| hexbytes(s)).collect();
  let mut src = Replay::new(vals);
  crate::bus::install_hooks();
  let bytes = [b0, cb.unwrap_or(0), 0];
  let r = std::panic::catch_unwind(std::panic::AssertUnwindSafe(|| crate::isa::check_interp(bytes, [cb.is_none(), true], &mut src)));
  crate::bus::remove_hooks();
  match r {
    Ok(o) => {
      let failed: Vec<&str> = (0..crate::isa::NCHECK).filter(|k| !o.ok[*k]).map(|k| crate::isa::CHECK_NAMES[k]).collect();
      println!("{{\"engine\":\"isa\",\"panicked\":false,\"assumption_violated\":{},\"values_exhausted\":{},\"failed_checks\":{:?},\"real_code_result\":{{\"af\":{},\"bc\":{},\"de\":{},\"hl\":{},\"sp\":{},\"pc\":{},\"cycles\":{},\"status\":{}}}}}",
               src.assumption_violated, src.exhausted, failed, o.detail[0], o.detail[1], o.detail[2], o.detail[3], o.detail[4], o.detail[5], o.detail[6], o.detail[7]);
    },
    Err(_) => println!("{{\"engine\":\"isa\",\"panicked\":true,\"failed_checks\":[\"the real interpreter panicked on this input\"]}}"),
  }
}


/// replay-strs <hex bytes of the token>: the real debug::command::parse_address on the verifier's token
fn replay_strs(args: &[String]) {
  let bytes = hexbytes(args.get(0).map(|s| s.as_str()).unwrap_or(""));
  let tok = match std::str::from_utf8(&bytes) { Ok(t) => t.to_string(), Err(_) => { println!("{{\"error\":\"token is not UTF-8\"}}"); return; } };
  std::panic::set_hook(Box::new(|_| {}));
  let r = std::panic::catch_unwind(|| crate::debug::command::parse_address(&tok));
  let want = if bytes.len() >= 2 && bytes[0] == b'0' && bytes[1] == b'x' { crate::misc::spec_hex(&bytes[2..]) } else { crate::misc::spec_dec(&bytes) };
  let ascii = bytes.iter().all(|b| *b < 0x80 && *b > b' ' && *b != b'+');
  let mut failed: Vec<&str> = vec![];
  match &r {
    Err(_) => failed.push("C20: parse_address panicked (command parsing must return a result for every input)"),
    Ok(v) => if ascii && *v != want { failed.push("C20: parsed value differs from the reference"); },
  }
  println!("{{\"token_hex\":\"{}\",\"real_result\":\"{}\",\"reference\":\"{:?}\",\"failed_checks\":[{}]}}",
    args.get(0).cloned().unwrap_or_default(), match &r { Ok(v) => format!("{:?}", v), Err(_) => "panic".to_string() }, want,
    failed.iter().map(|f| format!("\"{}\"", f)).collect::<Vec<_>>().join(","));
}

/// replay-serial <d0> <c0> <d> <v>: the real SerialComms with fd 1 redirected to a pipe; what reaches the host stream
#[cfg(unix)]
fn replay_serial(args: &[String]) {
  use std::io::Write;
  let v: Vec<u8> = args.iter().map(|a| a.parse::<u64>().unwrap_or(0) as u8).collect();
  if v.len() < 4 { println!("{{\"error\":\"need 4 values\"}}"); return; }
  let (d0, c0, d, ctl) = (v[0], v[1], v[2], v[3]);
  let _ = std::io::stdout().flush();
  let mut fds = [0i32; 2];
  let saved;
  unsafe { libc::pipe(fds.as_mut_ptr()); saved = libc::dup(1); libc::dup2(fds[1], 1); }
  let mut s = crate::devices::serial::SerialComms::new();
  s.set_data(d0); s.set_control(c0 & 0x7f); s.set_data(d); s.set_control(ctl);
  let _ = std::io::stdout().flush();
  let mut buf = [0u8; 64];
  let n;
  unsafe { libc::dup2(saved, 1); libc::close(fds[1]); libc::close(saved);
    let fl = libc::fcntl(fds[0], libc::F_GETFL); libc::fcntl(fds[0], libc::F_SETFL, fl | libc::O_NONBLOCK);
    let r = libc::read(fds[0], buf.as_mut_ptr() as *mut libc::c_void, 64); n = if r < 0 { 0 } else { r as usize }; libc::close(fds[0]); }
  let want: Vec<u8> = if ctl & 0x80 != 0 { vec![d] } else { vec![] };
  let got = &buf[..n];
  let ok = got == &want[..];
  println!("{{\"inputs\":{{\"latch_before\":{},\"control_before\":{},\"data\":{},\"control\":{}}},\"emitted\":{:?},\"expected\":{:?},\"failed_checks\":[{}]}}",
    d0, c0 & 0x7f, d, ctl, got, want, if ok { String::new() } else { "\"C18: the bytes on the host stream are not exactly the latched data byte\"".to_string() });
}


fn emit_one(emitter: &crate::emitter::Emitter, b0: u8, x: u8, y: u8) -> Vec<u8> {
  let bytes = [b0, x, y];
  let (op, len, _) = crate::decoder::decode(&bytes);
  let mut buf = [0u8; 512];
  let n = emitter.encode_op(op, len, &mut buf);
  buf[..n].to_vec()
}
/// tmpl-lens <b0>: length of the emitted code for every 16-bit immediate w = b2 << 8 | b1, as runs "r <first> <last> <len>"
fn tmpl_lens(a: &[String]) {
  let b0 = u8::from_str_radix(&a[0], 16).unwrap();
  crate::bus::install_hooks();
  let emitter = crate::emitter::Emitter::new(crate::jit::MEMPTR as *const crate::mem::MemoryAreas);
  let mut start = 0u32; let mut cur = emit_one(&emitter, b0, 0, 0).len();
  for w in 1..=0xffffu32 {
    let l = emit_one(&emitter, b0, w as u8, (w >> 8) as u8).len();
    if l != cur { println!("r {} {} {}", start, w - 1, cur); start = w; cur = l; }
  }
  println!("r {} {} {}", start, 0xffff, cur);
}
/// tmpl-probe <b0> <w>...: emitted bytes for the given immediates (same line format as tmpl-all)
fn tmpl_probe(a: &[String]) {
  let b0 = u8::from_str_radix(&a[0], 16).unwrap();
  crate::bus::install_hooks();
  let emitter = crate::emitter::Emitter::new(crate::jit::MEMPTR as *const crate::mem::MemoryAreas);
  println!("fn rb={:x} wb={:x} ww={:x} rw={:x} pw={:x}", crate::mem::memory_read_byte as usize, crate::mem::memory_write_byte as usize,
           crate::mem::memory_write_word as usize, crate::mem::memory_read_word as usize, crate::mem::memory_push_word as usize);
  for (pi, ws) in a[1..].iter().enumerate() {
    crate::bus::restore((0, 0, 0, 0, (0x3d * (pi as u32) + 0x17) as u8));
    let w: u32 = ws.parse().unwrap();
    let (x, y) = (w as u8, (w >> 8) as u8);
    let hex: String = emit_one(&emitter, b0, x, y).iter().map(|b| format!("{:02x}", b)).collect();
    println!("t {:02x} - {:02x} {:02x} {}", b0, x, y, hex);
  }
}
