//! Native replay of a JIT counterexample: the real CodeCache translates the instruction, the host CPU executes the
//! machine code, and the result is compared with the real interpreter (both on the recording bus).
pub fn replay_jit(_a: &[String]) { println!("{{\"engine\":\"jit\",\"error\":\"not built yet\"}}"); }
