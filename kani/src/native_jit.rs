//! Native replay of a JIT counterexample: the REAL CodeCache translates the instruction (followed by a HALT so that the
//! block ends), the host CPU executes the emitted machine code, and the result is compared with the REAL interpreter
//! running the same block from the same state.  Both engines talk to the recording bus through the
//! cfg(gb_dynarec_verif) hook of /repo/src/mem.rs.  This also cross-checks the x86-64 model: a counterexample that the
//! host CPU does not reproduce is reported as "not reproduced".
use crate::bus;
use crate::cpu::Registers;
use crate::emulator::Core;
use crate::mem::MemoryAreas;
use crate::src_any::{Replay, Src};

fn hexbytes(s: &str) -> Vec<u8> { (0..s.len() / 2).map(|i| u8::from_str_radix(&s[2 * i..2 * i + 2], 16).unwrap()).collect() }

fn make_core(ip: usize, bytes: &[u8]) -> Core {
  // 32 KiB of ROM (two banks, no controller) filled with HALT so that every block ends right after the instruction
  let mut core = Core::with_code_block(vec![0x76].into_boxed_slice());
  let mut rom = vec![0x76u8; 0x8000];
  for (i, b) in bytes.iter().enumerate() { if ip + i < 0x8000 { rom[ip + i] = *b; } }
  core.memory.rom = rom.into_boxed_slice();
  core
}

fn norm(s: u8) -> u8 { match s { 1 => 1, 2 => 2, 3 => 3, 4 | 5 => 4, _ => 0 } }

/// replay-jit <b0> <b1 or -> <value>...   (values in the order the harness called kani::any())
pub fn replay_jit(a: &[String]) {
  let b0 = u8::from_str_radix(&a[0], 16).unwrap();
  let cb = if a[1] == "-" { None } else { Some(u8::from_str_radix(&a[1], 16).unwrap()) };
  let vals: Vec<Vec<u8>> = a[2..].iter().map(|s| hexbytes(s)).collect();
  let mut src = Replay::new(vals);
  // same order as the generated harness + jit::check_op: b1 (if not fixed), b2, bus, registers
  let b1 = match cb { Some(c) => c, None => src.u8() };
  let b2 = src.u8();
  bus::setup(&mut src);
  let start = crate::jit::any_regs(&mut src);
  let (saf, sbc, sde, shl, ssp, sip, scyc) = (start.af, start.bc, start.de, start.hl, start.sp, start.ip, start.cycles);
  let ip = sip as usize;
  if ip > 0x7ffc { println!("{{\"engine\":\"jit\",\"error\":\"counterexample PC outside cartridge ROM\"}}"); return; }
  let bytes = [b0, b1, b2];
  let (op, len, _) = crate::decoder::decode(&bytes);
  let terminator = op.is_block_end();

  // ---- reference: the real interpreter runs the block [instruction, HALT]
  let mut ci = make_core(ip, &bytes[..len]);
  ci.registers = Registers { af: saf, bc: sbc, de: sde, hl: shl, sp: ssp, ip: sip, cycles: scyc };
  bus::install_hooks();
  bus::reset_log();
  let st_i = crate::interpreter::run_code_block(&mut ci.registers, &mut ci.memory as *mut MemoryAreas);
  let (ev_i, n_i) = bus::snapshot();

  // ---- translated: real translate_code_block + real machine code on the host CPU
  let mut cj = make_core(ip, &bytes[..len]);
  cj.registers = Registers { af: saf, bc: sbc, de: sde, hl: shl, sp: ssp, ip: sip, cycles: scyc };
  bus::reset_log();
  let mem_ptr = cj.memory.as_ptr();
  // as in jit::check_op: the block is translated under the counterexample's TRANSLATION-TIME memory (drawn next), then run
  // under its run-time memory
  let run_time_bus = bus::save();
  bus::setup(&mut src);
  let address = cj.cache.translate_code_block(&cj.memory.rom, ip, mem_ptr);
  bus::restore(run_time_bus);
  bus::reset_log();
  let st_j = cj.cache.call(address, &mut cj.registers);
  let (ev_j, n_j) = bus::snapshot();
  bus::remove_hooks();

  let (ri, rj) = (&ci.registers, &cj.registers);
  let (iaf, ibc, ide, ihl, isp, iip, icyc) = (ri.af, ri.bc, ri.de, ri.hl, ri.sp, ri.ip, ri.cycles);
  let (jaf, jbc, jde, jhl, jsp, jip, jcyc) = (rj.af, rj.bc, rj.de, rj.hl, rj.sp, rj.ip, rj.cycles);
  let mut failed: Vec<&str> = vec![];
  if iaf != jaf { failed.push("C01: AF"); }
  if ibc != jbc { failed.push("C01: BC"); }
  if ide != jde { failed.push("C01: DE"); }
  if ihl != jhl { failed.push("C01: HL"); }
  if isp != jsp { failed.push("C01: SP"); }
  if iip != jip { failed.push("C01: PC"); }
  if icyc != jcyc { failed.push("C02: cycles"); }
  if norm(st_i) != norm(st_j) { failed.push("C01: status"); }
  let wi: Vec<bus::Ev> = (0..n_i.min(bus::MAXEV)).map(|k| ev_i[k]).filter(|e| e.write).collect();
  let wj: Vec<bus::Ev> = (0..n_j.min(bus::MAXEV)).map(|k| ev_j[k]).filter(|e| e.write).collect();
  if wi != wj { failed.push("C01: same bus writes in the same order"); }
  println!("{{\"engine\":\"jit\",\"block\":\"{:02x} {:02x} {:02x} (+HALT: {})\",\"start\":{{\"af\":{},\"bc\":{},\"de\":{},\"hl\":{},\"sp\":{},\"pc\":{},\"cycles\":{}}},\"failed_checks\":{:?},\"interpreter\":{{\"af\":{},\"bc\":{},\"de\":{},\"hl\":{},\"sp\":{},\"pc\":{},\"cycles\":{},\"status\":{},\"writes\":\"{:?}\"}},\"translated_on_host_cpu\":{{\"af\":{},\"bc\":{},\"de\":{},\"hl\":{},\"sp\":{},\"pc\":{},\"cycles\":{},\"status\":{},\"writes\":\"{:?}\"}},\"values_exhausted\":{}}}",
    b0, b1, b2, !terminator, saf, sbc, sde, shl, ssp, sip, scyc, failed,
    iaf, ibc, ide, ihl, isp, iip, icyc, st_i, wi, jaf, jbc, jde, jhl, jsp, jip, jcyc, st_j, wj, src.exhausted);
}

/// replay-frame <value>...: the frame harness draws the register file first; run the block [NOP, HALT] from that register
/// file through the real prologue / translated block / epilogue on the host CPU and through the real interpreter.
pub fn replay_frame(a: &[String]) {
  let vals: Vec<Vec<u8>> = a.iter().map(|s| hexbytes(s)).collect();
  let mut src = Replay::new(vals);
  let start = crate::jit::any_regs(&mut src);
  let (saf, sbc, sde, shl, ssp, sip, scyc) = (start.af, start.bc, start.de, start.hl, start.sp, start.ip & 0x3ffc, start.cycles);
  let ip = sip as usize;
  let bytes = [0x00u8];
  let mut ci = make_core(ip, &bytes);
  ci.registers = Registers { af: saf, bc: sbc, de: sde, hl: shl, sp: ssp, ip: sip, cycles: scyc };
  bus::install_hooks();
  let st_i = crate::interpreter::run_code_block(&mut ci.registers, &mut ci.memory as *mut MemoryAreas);
  let mut cj = make_core(ip, &bytes);
  cj.registers = Registers { af: saf, bc: sbc, de: sde, hl: shl, sp: ssp, ip: sip, cycles: scyc };
  let mem_ptr = cj.memory.as_ptr();
  let address = cj.cache.translate_code_block(&cj.memory.rom, ip, mem_ptr);
  let st_j = cj.cache.call(address, &mut cj.registers);
  bus::remove_hooks();
  let (ri, rj) = (&ci.registers, &cj.registers);
  let (iaf, ibc, ide, ihl, isp, iip, icyc) = (ri.af, ri.bc, ri.de, ri.hl, ri.sp, ri.ip, ri.cycles);
  let (jaf, jbc, jde, jhl, jsp, jip, jcyc) = (rj.af, rj.bc, rj.de, rj.hl, rj.sp, rj.ip, rj.cycles);
  let mut failed: Vec<&str> = vec![];
  if iaf != jaf || ibc != jbc || ide != jde || ihl != jhl || isp != jsp || iip != jip { failed.push("C01: register file after the block differs between the engines"); }
  if icyc != jcyc { failed.push("C02: cycle count after the block differs between the engines"); }
  if norm(st_i) != norm(st_j) { failed.push("C01: status"); }
  println!("{{\"engine\":\"jit-frame\",\"block\":\"NOP; HALT at {:#06x}\",\"start\":{{\"af\":{},\"bc\":{},\"de\":{},\"hl\":{},\"sp\":{},\"pc\":{},\"cycles\":{}}},\"failed_checks\":{:?},\"interpreter\":{{\"af\":{},\"bc\":{},\"de\":{},\"hl\":{},\"sp\":{},\"pc\":{},\"cycles\":{}}},\"translated_on_host_cpu\":{{\"af\":{},\"bc\":{},\"de\":{},\"hl\":{},\"sp\":{},\"pc\":{},\"cycles\":{}}}}}",
    ip, saf, sbc, sde, shl, ssp, sip, scyc, failed, iaf, ibc, ide, ihl, isp, iip, icyc, jaf, jbc, jde, jhl, jsp, jip, jcyc);
}

/// replay-irq <value>...: the irq harness draws IF, IE, SP, PC, cycles, IME selector, run-state selector, AF, BC, DE, HL.
/// Runs the REAL Core::handle_interrupt on a real core (real bus) and evaluates the C07 reference model on the outcome.
pub fn replay_irq(a: &[String]) {
  use crate::emulator::{InterruptState, RunState};
  use crate::devices::interrupts::InterruptFlag;
  let vals: Vec<Vec<u8>> = a.iter().map(|s| hexbytes(s)).collect();
  let mut s = Replay::new(vals);
  let if0 = s.u8() & 0x1f; let ie0 = s.u8() & 0x1f;
  let sp0 = s.u16(); let pc0 = s.u16(); let cyc0 = s.u8();
  let ime = s.u8(); let rs = s.u8();
  let pairs = [s.u16() as u32, s.u16() as u32, s.u16() as u32, s.u16() as u32];
  let mut core = Core::with_code_block(vec![0x76].into_boxed_slice());
  core.memory.io.interrupt_flag = InterruptFlag::new(if0); core.memory.io.interrupt_mask = ie0;
  core.registers = Registers { af: pairs[0], bc: pairs[1], de: pairs[2], hl: pairs[3], sp: sp0 as u32, ip: pc0 as u32, cycles: cyc0 as u32 };
  core.interrupts_enabled = match ime { 0 => InterruptState::Enabled, 1 => InterruptState::Disabled, _ => InterruptState::EnableNext };
  core.run_state = match rs { 0 => RunState::Run, 1 => RunState::Stop, _ => RunState::Halt };
  // log the writes through the hook, but let them reach the real bus too
  bus::install_log_only();
  bus::reset_log();
  core.handle_interrupt();
  let (ev, n) = bus::snapshot();
  bus::remove_hooks();
  let r = &core.registers;
  let o = crate::misc::IrqOut { sp: r.sp, pc: r.ip, cyc: r.cycles, pairs: [r.af, r.bc, r.de, r.hl],
    if1: core.memory.io.interrupt_flag.as_u8(), ie1: core.memory.io.interrupt_mask,
    ime: match core.interrupts_enabled { InterruptState::Enabled => 0, InterruptState::Disabled => 1, InterruptState::EnableNext => 2 },
    rs: match core.run_state { RunState::Run => 0, RunState::Stop => 1, RunState::Halt => 2 },
    nw: n, w0: (ev[0].addr, ev[0].val), w1: (ev[1].addr, ev[1].val) };
  let i = crate::misc::IrqIn { if0, ie0, ime, rs, sp0, pc0, cyc0: cyc0 as u32, pairs };
  let v = crate::misc::irq_verdicts(&i, &o);
  let failed: Vec<&str> = (0..11).filter(|k| !v[*k]).map(|k| crate::misc::IRQ_NAMES[k]).collect();
  let (osp, opc, ocyc) = (o.sp, o.pc, o.cyc);
  println!("{{\"engine\":\"irq\",\"inputs\":{{\"if\":{},\"ie\":{},\"ime\":{},\"run_state\":{},\"sp\":{},\"pc\":{},\"cycles\":{}}},\"failed_checks\":{:?},\"real_code_result\":{{\"sp\":{},\"pc\":{},\"cycles\":{},\"if\":{},\"ie\":{},\"ime\":{},\"run_state\":{},\"writes\":{}}}}}",
    if0, ie0, ime, rs, sp0, pc0, cyc0, failed, osp, opc, ocyc, o.if1, o.ie1, o.ime, o.rs, o.nw);
}
