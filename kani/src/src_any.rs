//! Source of "arbitrary" values: kani::any() under Kani, a queue of concrete values (a counterexample printed by
//! `--concrete-playback=print`, in the order the harness asked for them) in the native replay.
use std::collections::VecDeque;

pub trait Src {
  fn bytes(&mut self, n: usize) -> u64;
  fn u8(&mut self) -> u8 { self.bytes(1) as u8 }
  fn u16(&mut self) -> u16 { self.bytes(2) as u16 }
  fn u32(&mut self) -> u32 { self.bytes(4) as u32 }
  fn u64(&mut self) -> u64 { self.bytes(8) }
  fn bool(&mut self) -> bool { self.bytes(1) & 1 != 0 }
  fn assume(&mut self, c: bool);
}

#[cfg(kani)]
pub struct K;
#[cfg(kani)]
impl Src for K {
  fn bytes(&mut self, n: usize) -> u64 {
    match n { 1 => kani::any::<u8>() as u64, 2 => kani::any::<u16>() as u64, 4 => kani::any::<u32>() as u64, _ => kani::any::<u64>() }
  }
  fn bool(&mut self) -> bool { kani::any() }
  fn assume(&mut self, c: bool) { kani::assume(c); }
}

pub struct Replay { pub vals: VecDeque<Vec<u8>>, pub assumption_violated: bool, pub exhausted: bool }
impl Replay {
  pub fn new(vals: Vec<Vec<u8>>) -> Self { Replay { vals: vals.into(), assumption_violated: false, exhausted: false } }
}
impl Src for Replay {
  fn bytes(&mut self, n: usize) -> u64 {
    match self.vals.pop_front() {
      Some(v) => { let mut r = 0u64; for (i, b) in v.iter().enumerate().take(8) { r |= (*b as u64) << (8 * i); } let _ = n; r },
      None => { self.exhausted = true; 0 },
    }
  }
  fn assume(&mut self, c: bool) { if !c { self.assumption_violated = true; } }
}
