//! Harness crate: the repository's modules are included UNMODIFIED by #[path] (the directory is substituted for
//! @REPO@ when the driver copies this crate into build/kani), so the verified text is the code that runs.
#![allow(dead_code, unused, unexpected_cfgs, static_mut_refs)]
#[path = "@REPO@/src/cache/mod.rs"] pub mod cache;
#[path = "@REPO@/src/cpu.rs"] pub mod cpu;
#[path = "@REPO@/src/cart.rs"] pub mod cart;
#[path = "@REPO@/src/debug/mod.rs"] pub mod debug;
#[path = "@REPO@/src/decoder/mod.rs"] pub mod decoder;
#[path = "@REPO@/src/devices/mod.rs"] pub mod devices;
#[path = "@REPO@/src/emitter/mod.rs"] pub mod emitter;
#[path = "@REPO@/src/emulator.rs"] pub mod emulator;
#[path = "@REPO@/src/interpreter/mod.rs"] pub mod interpreter;
#[path = "@REPO@/src/mem.rs"] pub mod mem;
#[path = "@REPO@/src/system/mod.rs"] pub mod system;
#[path = "@REPO@/src/timing.rs"] pub mod timing;

pub mod sm83;
pub mod x86;
pub mod src_any;
pub mod bus;
pub mod isa;
pub mod jit;
pub mod misc;
#[cfg(not(kani))]
pub mod native;

#[cfg(not(kani))]
fn main() { native::main(); }
#[cfg(kani)]
fn main() {}
#[cfg(all(unix, not(kani)))]
pub mod native_jit;
