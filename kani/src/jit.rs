//! C01 / C02: the bytes produced by the real Emitter::encode_op, executed under the x86-64 model (x86.rs), against the
//! real decoder + interpreter, for one instruction with every guest register / flag / immediate / bus value and every
//! unspecified host register arbitrary.
use crate::cpu::Registers;
use crate::mem::MemoryAreas;
use crate::x86::*;
use crate::src_any::Src;
use crate::bus::{self, Ev, MAXEV};

pub const MEMPTR: u64 = 0x0000_7f12_3456_7000;
pub const TAG_RB: u64 = 0xF1F1_F1F1_F1F1_F101;
pub const TAG_WB: u64 = 0xF1F1_F1F1_F1F1_F102;
pub const TAG_WW: u64 = 0xF1F1_F1F1_F1F1_F103;
pub const TAG_RW: u64 = 0xF1F1_F1F1_F1F1_F104;
pub const TAG_PW: u64 = 0xF1F1_F1F1_F1F1_F105;

pub struct JitEnv { pub bad_arg: bool, pub native_targets: bool }
impl Env for JitEnv {
  fn call(&mut self, target: u64, cpu: &mut X86) -> bool {
    if cpu.r[RDI] != MEMPTR { self.bad_arg = true; }
    let si = cpu.r[RSI] as u16;
    let p = core::ptr::null_mut::<MemoryAreas>();
    let (rb, wb, ww, rw, pw) = if self.native_targets {
      (crate::mem::memory_read_byte as usize as u64, crate::mem::memory_write_byte as usize as u64,
       crate::mem::memory_write_word as usize as u64, crate::mem::memory_read_word as usize as u64, crate::mem::memory_push_word as usize as u64)
    } else { (TAG_RB, TAG_WB, TAG_WW, TAG_RW, TAG_PW) };
    if target == rb {
      let v = crate::mem::memory_read_byte(p, si);
      cpu.clobber_caller_saved();
      cpu.r[RAX] = (cpu.r[RAX] & !0xff) | v as u64;
    } else if target == wb {
      crate::mem::memory_write_byte(p, si, cpu.r[RDX] as u8);
      cpu.clobber_caller_saved();
    } else if target == ww {
      crate::mem::memory_write_word(p, si, cpu.r[RDX] as u16);
      cpu.clobber_caller_saved();
    } else if target == pw {
      crate::mem::memory_push_word(p, si, cpu.r[RDX] as u16);
      cpu.clobber_caller_saved();
    } else if target == rw {
      let v = crate::mem::memory_read_word(p, si);
      cpu.clobber_caller_saved();
      cpu.r[RAX] = (cpu.r[RAX] & !0xffff) | v as u64;
    } else {
      return false;
    }
    true
  }
  fn load(&mut self, _addr: u64, _size: usize) -> u64 { 0 }
  fn store(&mut self, _addr: u64, _size: usize, _value: u64) {}
}

pub const NCHECK: usize = 15;
pub const CHECK_NAMES: [&str; NCHECK] = [
  "C01: emitted bytes equal the derived template", "C01: template falls through to its own end, no model fault",
  "C01: host stack balanced, rbp/rsp preserved", "C01: helper called with the MemoryAreas pointer",
  "C01: AF", "C01: BC", "C01: DE", "C01: HL", "C01: SP", "C01: PC", "C02: cycles", "C01: status",
  "C01: same number of bus accesses", "C01: same bus access in the same order", "C01,C18: same bus writes in the same order" ];

pub struct Outcome { pub ok: [bool; NCHECK], pub fault: u32 }

pub fn any_regs<S: Src>(s: &mut S) -> Registers {
  let mut r = Registers::new();
  r.af = (s.u16() & 0xfff0) as u32;
  r.bc = s.u16() as u32;
  r.de = s.u16() as u32;
  r.hl = s.u16() as u32;
  r.sp = s.u16() as u32;
  r.ip = s.u16() as u32;
  r.cycles = s.u8() as u32;
  r
}

/// `tmpl`: expected emitter output as a function of the immediates (checked against the real emitter);
/// `texec`: the same bytes with immediates zeroed and helper addresses replaced by tags (fully constant: executed);
/// `imm`: (position, value) of the immediate bytes inside the template.
/// `free`: positions whose emitted byte is not an affine function of the immediates (e.g. a constant chosen by an `if` on the
/// operand): not compared with the template; the model reads the REAL emitter's byte there (as an immediate operand).
pub fn check_op<S: Src>(bytes: [u8; 3], tmpl: &[u8], texec: &[u8], tlen: usize, steps: u32, imm: [(usize, u8); 4], free: [usize; 2], s: &mut S) -> Outcome {
  bus::setup(s);
  let mut ri = any_regs(s);
  // C01 is about blocks located in cartridge ROM (Core::run_code_block interprets everything else)
  s.assume(ri.ip <= 0x7ffc);
  // call-site precondition of decode: the instruction lies inside one fetch slice (slices end at bank / 4 KiB boundaries)
  s.assume((ri.ip & 0xfff) <= 0xffc);
  let start = Registers { af: ri.af, bc: ri.bc, de: ri.de, hl: ri.hl, sp: ri.sp, ip: ri.ip, cycles: ri.cycles };

  // --- reference: real interpreter ---
  let (op, len, cycles) = crate::decoder::decode(&bytes);
  let st_i = crate::interpreter::run_op(op, &mut ri, core::ptr::null_mut(), len as u32);
  ri.cycles += (cycles / 4) as u32;
  let (ev_i, n_i) = bus::snapshot();
  bus::reset_log();

  // --- translated: real emitter bytes under the x86 model ---
  let (op2, len2, _) = crate::decoder::decode(&bytes);
  let emitter = crate::emitter::Emitter::new(MEMPTR as *const MemoryAreas);
  let mut buf = [0u8; 512];
  // The emitted code must be right for EVERY memory state at run time, whatever memory held when the block was translated
  // (bank switches, RAM writes): translate under an independent arbitrary bus, then restore the run-time one.
  let run_time_bus = bus::save();
  bus::setup(s);
  let written = emitter.encode_op(op2, len2, &mut buf);
  bus::restore(run_time_bus);
  bus::reset_log();
  let mut regs = [0u64; 16];
  let mut i = 0;
  while i < 16 { regs[i] = s.u64(); i += 1; }
  regs[RAX] = start.af as u64; regs[RBX] = start.bc as u64; regs[RDX] = start.de as u64; regs[RCX] = start.hl as u64;
  regs[R12] = (regs[R12] & !0xffff) | start.sp as u64;
  regs[R13] = (regs[R13] & !0xffff) | start.ip as u64;
  regs[R14] = 0;
  regs[R15] = (regs[R15] & !0xffff) | start.cycles as u64;
  let (rbp0, rsp_marker) = (regs[RBP], regs[RSP]);
  // (a) the real emitter produced exactly the template, for all immediates
  let mut tmpl_ok = written == tlen;
  let mut q = 0;
  while q < tlen { if q < 512 && q != free[0] && q != free[1] && buf[q] != tmpl[q] { tmpl_ok = false; } q += 1; }
  // (b) semantics of the template
  let mut cpu = X86::new(regs);
  cpu.imm = [imm[0], imm[1], imm[2], imm[3],
             (free[0], if free[0] < 512 { buf[free[0]] } else { 0 }), (free[1], if free[1] < 512 { buf[free[1]] } else { 0 })];
  cpu.havoc_flags();
  let mut env = JitEnv { bad_arg: false, native_targets: false };
  if steps >= 1000 { cpu.run_straight(texec, tlen, &mut env, steps - 1000); } else { cpu.run(texec, tlen, &mut env, steps); }

  let st_j = cpu.r[R14] as u8;
  let norm = |s: u8| -> u8 { match s { 1 => 1, 2 => 2, 3 => 3, 4 | 5 => 4, _ => 0 } };
  let (ev_j, n_j) = bus::snapshot();
  let (iaf, ibc, ide, ihl, isp, iip, icyc) = (ri.af, ri.bc, ri.de, ri.hl, ri.sp, ri.ip, ri.cycles);
  let mut order_ok = true;
  let mut k = 0;
  while k < MAXEV { if k < n_i && k < n_j { if ev_i[k] != ev_j[k] { order_ok = false; } } k += 1; }
  // writes only (the property's "same bus writes with the same values in the same order")
  let mut wi = [Ev { write: true, addr: 0, val: 0 }; MAXEV]; let mut nwi = 0;
  let mut wj = [Ev { write: true, addr: 0, val: 0 }; MAXEV]; let mut nwj = 0;
  k = 0;
  while k < MAXEV {
    if k < n_i && ev_i[k].write { wi[nwi] = ev_i[k]; nwi += 1; }
    if k < n_j && ev_j[k].write { wj[nwj] = ev_j[k]; nwj += 1; }
    k += 1;
  }
  let mut writes_ok = nwi == nwj && n_i <= MAXEV && n_j <= MAXEV;
  k = 0;
  while k < MAXEV { if k < nwi && k < nwj && wi[k] != wj[k] { writes_ok = false; } k += 1; }
  Outcome { ok: [
    tmpl_ok,
    cpu.exit == Exit::FellThrough && cpu.fault == 0,
    cpu.sp_off == STACK_BYTES && cpu.r[RBP] == rbp0 && cpu.r[RSP] == rsp_marker,
    !env.bad_arg,
    cpu.r[RAX] as u32 == iaf,
    cpu.r[RBX] as u32 == ibc,
    cpu.r[RDX] as u32 == ide,
    cpu.r[RCX] as u32 == ihl,
    cpu.r[R12] as u16 as u32 == isp,
    cpu.r[R13] as u16 as u32 == iip,
    cpu.r[R15] as u16 as u32 == (icyc & 0xffff),
    norm(st_j) == norm(st_i),
    n_i <= MAXEV && n_j <= MAXEV && n_i == n_j,
    order_ok,
    writes_ok,
  ], fault: cpu.fault }
}


// ---------------------------------------------------------------------------------------------------------------------
// Prologue / epilogue: the code that moves the register file between the Registers struct and the host registers.
pub const REGPTR: u64 = 0x0000_7f55_0000_1000;
pub const BLOCK_ADDR: u64 = 0x0000_7f66_0000_2000;
pub const EPILOGUE_ADDR: u64 = 0x0000_7f66_0000_3000;

pub struct FrameEnv { pub regs: [u8; 28], pub bad: bool }
impl Env for FrameEnv {
  fn call(&mut self, _target: u64, _cpu: &mut X86) -> bool { false }
  fn load(&mut self, addr: u64, size: usize) -> u64 {
    let off = addr.wrapping_sub(REGPTR);
    if off > 24 || (size != 2 && size != 4) || (off as usize) + size > 28 { self.bad = true; return 0; }
    let o = off as usize;
    let mut v = 0u64; let mut k = 0;
    while k < size { v |= (self.regs[o + k] as u64) << (8 * k); k += 1; }
    v
  }
  fn store(&mut self, addr: u64, size: usize, value: u64) {
    let off = addr.wrapping_sub(REGPTR);
    if off > 24 || (size != 2 && size != 4) || (off as usize) + size > 28 { self.bad = true; return; }
    let o = off as usize;
    let mut k = 0;
    while k < size { self.regs[o + k] = (value >> (8 * k)) as u8; k += 1; }
  }
}
fn rd32(b: &[u8; 28], o: usize) -> u32 { (b[o] as u32) | ((b[o + 1] as u32) << 8) | ((b[o + 2] as u32) << 16) | ((b[o + 3] as u32) << 24) }

pub const NFRAME: usize = 8;
pub const FRAME_NAMES: [&str; NFRAME] = [
  "C01: prologue/epilogue bytes equal the derived templates",
  "C01: prologue loads AF, BC, DE, HL, SP, PC from the register file, clears the status and jumps to the block",
  "C02: prologue loads the pending cycle count into r15",
  "C01: block epilogue jumps to the epilogue function",
  "C01: epilogue stores AF, BC, DE, HL, SP, PC into the register file",
  "C02: epilogue stores the cycle counter",
  "C01: epilogue returns the status, restores callee-saved registers and the host stack",
  "C01: prologue/epilogue touch only the register file" ];

/// pre/epi/bepi: constant copies of the three emitted sequences (checked against the real emitter first)
pub fn check_frame<S: Src>(pre: &[u8], npre: usize, epi: &[u8], nepi: usize, bepi: &[u8], nbepi: usize, s: &mut S) -> [bool; NFRAME] {
  // (a) the real emitter produces exactly these bytes
  let emitter = crate::emitter::Emitter::new(MEMPTR as *const MemoryAreas);
  let mut b1 = [0u8; 128]; let mut b2 = [0u8; 128]; let mut b3 = [0u8; 16];
  let n1 = crate::emitter::Emitter::write_prelude_function(&mut b1);
  let n2 = crate::emitter::Emitter::write_epilogue_function(&mut b2);
  let n3 = emitter.encode_epilogue(&mut b3);
  let mut tmpl_ok = n1 == npre && n2 == nepi && n3 == nbepi;
  let mut q = 0; while q < npre { if q < 128 && b1[q] != pre[q] { tmpl_ok = false; } q += 1; }
  q = 0; while q < nepi { if q < 128 && b2[q] != epi[q] { tmpl_ok = false; } q += 1; }
  q = 0; while q < nbepi { if q < 16 && b3[q] != bepi[q] { tmpl_ok = false; } q += 1; }

  // arbitrary register file (pairs and counters within their ranges) and arbitrary host registers
  let mut env = FrameEnv { regs: [0; 28], bad: false };
  let start = any_regs(s);
  let (saf, sbc, sde, shl, ssp, sip, scyc) = (start.af, start.bc, start.de, start.hl, start.sp, start.ip, start.cycles);
  let words = [saf, sbc, sde, shl, ssp, sip, scyc];
  let mut w = 0; while w < 7 { let mut k = 0; while k < 4 { env.regs[4 * w + k] = (words[w] >> (8 * k)) as u8; k += 1; } w += 1; }
  let mut regs = [0u64; 16];
  let mut i = 0; while i < 16 { regs[i] = s.u64(); i += 1; }
  regs[RDI] = REGPTR; regs[RSI] = BLOCK_ADDR; regs[RDX] = EPILOGUE_ADDR;
  let saved = (regs[RBX], regs[RBP], regs[R12], regs[R13], regs[R14], regs[R15], regs[RSP]);
  let mut cpu = X86::new(regs);
  cpu.havoc_flags();

  // prologue
  cpu.run_straight(pre, npre, &mut env, 40);
  let pro_ok = cpu.exit == Exit::JmpReg(RSI) && cpu.fault == 0 && !env.bad && cpu.r[RSI] == BLOCK_ADDR
    && cpu.r[RAX] as u32 == saf && cpu.r[RBX] as u32 == sbc && cpu.r[RDX] as u32 == sde && cpu.r[RCX] as u32 == shl
    && cpu.r[R12] as u16 as u32 == ssp && cpu.r[R13] as u16 as u32 == sip && cpu.r[R14] == 0;
  let cyc_in_ok = cpu.r[R15] as u16 as u32 == scyc;

  // the block: arbitrary effect on the guest registers, stack balanced
  let (naf, nbc, nde, nhl) = (s.u32() as u64, s.u32() as u64, s.u32() as u64, s.u32() as u64);
  cpu.r[RAX] = naf; cpu.r[RBX] = nbc; cpu.r[RDX] = nde; cpu.r[RCX] = nhl;
  cpu.r[R12] = s.u64(); cpu.r[R13] = s.u64(); cpu.r[R14] = s.u64(); cpu.r[R15] = s.u64();
  cpu.r[RSI] = s.u64(); cpu.r[RDI] = s.u64();
  let (n12, n13, n14, n15) = (cpu.r[R12], cpu.r[R13], cpu.r[R14], cpu.r[R15]);
  cpu.havoc_flags();

  // block epilogue: pop the epilogue address and jump to it
  cpu.exit = Exit::Running; cpu.pc = 0;
  cpu.run_straight(bepi, nbepi, &mut env, 8);
  let bepi_ok = cpu.exit == Exit::JmpReg(RDI) && cpu.fault == 0 && cpu.r[RDI] == EPILOGUE_ADDR;

  // epilogue function
  cpu.exit = Exit::Running; cpu.pc = 0;
  cpu.run_straight(epi, nepi, &mut env, 40);
  let r = &env.regs;
  let store_ok = !env.bad && rd32(r, 0) == naf as u32 && rd32(r, 4) == nbc as u32 && rd32(r, 8) == nde as u32 && rd32(r, 12) == nhl as u32
    && rd32(r, 16) == (n12 as u16 as u32) && rd32(r, 20) == (n13 as u16 as u32);
  let cyc_out_ok = rd32(r, 24) == (n15 as u16 as u32);
  let ret_ok = cpu.exit == Exit::Ret && cpu.fault == 0 && cpu.r[RAX] as u8 == n14 as u8
    && cpu.r[RBX] == saved.0 && cpu.r[RBP] == saved.1 && cpu.r[R12] == saved.2 && cpu.r[R13] == saved.3 && cpu.r[R14] == saved.4 && cpu.r[R15] == saved.5
    && cpu.r[RSP] == saved.6 && cpu.sp_off == STACK_BYTES;
  [tmpl_ok, pro_ok, cyc_in_ok, bepi_ok, store_ok, cyc_out_ok, ret_ok, !env.bad]
}

pub fn fnb(f: u64, k: u32) -> u8 { (f >> (8 * k)) as u8 }

#[cfg(all(kani, feature = "h_jit"))]
mod harnesses {
  use super::*;
  use crate::bus::{stub_read, stub_write};
  macro_rules! select_assert {
    ($o:expr) => {{
      let sel: u8 = kani::any();
      match sel {
        0 => assert!($o.ok[0], "C01: emitted bytes equal the derived template"),
        1 => assert!($o.ok[1], "C01: template falls through to its own end, no model fault"),
        2 => assert!($o.ok[2], "C01: host stack balanced, rbp/rsp preserved"),
        3 => assert!($o.ok[3], "C01: helper called with the MemoryAreas pointer"),
        4 => assert!($o.ok[4], "C01: AF"), 5 => assert!($o.ok[5], "C01: BC"), 6 => assert!($o.ok[6], "C01: DE"), 7 => assert!($o.ok[7], "C01: HL"),
        8 => assert!($o.ok[8], "C01: SP"), 9 => assert!($o.ok[9], "C01: PC"), 10 => assert!($o.ok[10], "C02: cycles"), 11 => assert!($o.ok[11], "C01: status"),
        // (checks 12/13 compare the read traces too; stronger than the property, reported natively only)
        14 => assert!($o.ok[14], "C01,C18: same bus writes in the same order"),
        _ => { kani::cover!(true, "reachable"); },
      }
    }};
  }
  fn run_frame(pre: &[u8], npre: usize, epi: &[u8], nepi: usize, bepi: &[u8], nbepi: usize) {
    let o = check_frame(pre, npre, epi, nepi, bepi, nbepi, &mut crate::src_any::K);
    let sel: u8 = kani::any();
    match sel {
      0 => assert!(o[0], "C01: prologue/epilogue bytes equal the derived templates"),
      1 => assert!(o[1], "C01: prologue loads AF, BC, DE, HL, SP, PC from the register file, clears the status and jumps to the block"),
      2 => assert!(o[2], "C02: prologue loads the pending cycle count into r15"),
      3 => assert!(o[3], "C01: block epilogue jumps to the epilogue function"),
      4 => assert!(o[4], "C01: epilogue stores AF, BC, DE, HL, SP, PC into the register file"),
      5 => assert!(o[5], "C02: epilogue stores the cycle counter"),
      6 => assert!(o[6], "C01: epilogue returns the status, restores callee-saved registers and the host stack"),
      7 => assert!(o[7], "C01: prologue/epilogue touch only the register file"),
      _ => { kani::cover!(true, "reachable"); },
    }
  }
  fn run(bytes: [u8; 3], tmpl: &[u8], texec: &[u8], tlen: usize, steps: u32, imm: [(usize, u8); 4], free: [usize; 2]) {
    let o = check_op(bytes, tmpl, texec, tlen, steps, imm, free, &mut crate::src_any::K);
    select_assert!(o);
  }
  include!(concat!(env!("CARGO_MANIFEST_DIR"), "/gen/jit_gen.rs"));
}
