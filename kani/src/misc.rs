//! Smaller harness families: serial output (C18), cartridge header (C19), debugger strings (C20), video leaf functions (C15).
#[cfg(all(kani, feature = "h_misc"))]
pub mod harnesses {
  use std::io::{self, Write};

  // ------------------------------------------------------------------ C18: what SerialComms::set_control emits
  static mut OUT: [u8; 4] = [0; 4];
  static mut NOUT: usize = 0;
  static mut NFLUSH: usize = 0;
  fn stub_write(_s: &mut io::Stdout, buf: &[u8]) -> io::Result<usize> {
    unsafe { let mut i = 0; while i < buf.len() { if NOUT < 4 { OUT[NOUT] = buf[i]; } NOUT += 1; i += 1; } }
    Ok(buf.len())
  }
  fn stub_flush(_s: &mut io::Stdout) -> io::Result<()> { unsafe { NFLUSH += 1; } Ok(()) }
  /// io::stdout() itself (OnceLock + reentrant mutex) is irrelevant to the property and very expensive for CBMC: the
  /// handle is never dereferenced once write/flush are stubbed, so a dummy handle stands in for it.
  fn stub_stdout() -> io::Stdout { unsafe { core::mem::transmute::<usize, io::Stdout>(0x1000) } }

  #[kani::proof]
  #[kani::stub(<std::io::Stdout as std::io::Write>::write, stub_write)]
  #[kani::stub(<std::io::Stdout as std::io::Write>::flush, stub_flush)]
  #[kani::stub(std::io::stdout, stub_stdout)]
  fn serial_set_control() {
    let mut s = crate::devices::serial::SerialComms::new();
    let d0: u8 = kani::any(); let c0: u8 = kani::any();
    // arbitrary reachable state: any latch, any previous control value (bit 7 clear so that nothing was emitted yet)
    s.set_data(d0);
    s.set_control(c0 & 0x7f);
    let emitted_before = unsafe { NOUT };
    let d: u8 = kani::any();
    s.set_data(d);                       // writing the data register alone emits nothing
    let after_data = unsafe { NOUT };
    let v: u8 = kani::any();
    s.set_control(v);
    let (n, first) = unsafe { (NOUT, OUT[0]) };
    let sel: u8 = kani::any();
    match sel {
      0 => assert!(emitted_before == 0, "C18: a control write with bit 7 clear emits nothing"),
      1 => assert!(after_data == emitted_before, "C18: a data write emits nothing"),
      2 => assert!(if v & 0x80 != 0 { n == 1 && first == d } else { n == 0 }, "C18: bit 7 set emits exactly the latched byte, bit 7 clear emits nothing"),
      3 => assert!(s.get_control() == v && s.get_data() == d, "C18: SC/SB hold the written values"),
      _ => { kani::cover!(true, "reachable"); },
    }
  }
}
