//! Smaller harness families (serial output, header, debugger strings, video leaf functions).
#[cfg(all(kani, feature = "h_misc"))]
mod harnesses {
  include!(concat!(env!("CARGO_MANIFEST_DIR"), "/gen/misc_gen.rs"));
}
