//! Smaller harness families: serial output (C18), cartridge header (C19), debugger strings (C20), video leaf functions (C15),
//! interrupt dispatch twin (C07).

/// C07 reference model, written from the property statement; shared by the Kani harness and the native replay.
pub struct IrqIn { pub if0: u8, pub ie0: u8, pub ime: u8, pub rs: u8, pub sp0: u16, pub pc0: u16, pub cyc0: u32, pub pairs: [u32; 4] }
pub struct IrqOut { pub sp: u32, pub pc: u32, pub cyc: u32, pub pairs: [u32; 4], pub if1: u8, pub ie1: u8, pub ime: u8, pub rs: u8, pub nw: usize, pub w0: (u16, u8), pub w1: (u16, u8) }
pub const IRQ_NAMES: [&str; 11] = [
  "C07: nothing requested-and-enabled: nothing changes",
  "C07: a pending interrupt resumes a halted or stopped CPU",
  "C07: master enable off: IF, IE, PC, SP, memory unchanged",
  "C07: dispatch resumes the CPU and clears the master enable",
  "C07: PC is pushed high byte first at SP-1, then the low byte at SP-2",
  "C07: SP decreases by two modulo 2^16",
  "C07: jumps to the vector of the highest-priority pending source (0x0000 if the push cancelled them all)",
  "C07: only the IF bit of the dispatched source is cleared (none on cancellation)",
  "C07: IE unchanged except by the push itself",
  "C07: five machine cycles are charged",
  "C07: AF, BC, DE, HL unchanged" ];

/// C15 reference for the object half of a scan line, written from the property statement: at most ten objects per line chosen
/// in OAM order, x/y flips, 8x16 objects (bit 0 of the tile index ignored), lowest-X-then-lowest-OAM-index priority,
/// colour 0 transparent.  Result per cache index p (screen x = p - 8): 0x80 | BG-over-OBJ clear -> 0x40 | palette << 2 | colour.
pub fn ref_object_line(oam: &[u8], vram: &[u8], line: u8, double_height: bool, nobj: usize) -> [u8; 176] {
  let h: i32 = if double_height { 16 } else { 8 };
  // selection: the first ten entries (OAM order) whose vertical extent covers the line
  let mut sx = [0i32; 10]; let mut slo = [0u8; 10]; let mut shi = [0u8; 10]; let mut sattr = [0u8; 10]; let mut nsel = 0;
  let mut k = 0;
  while k < nobj {
    let (y, x, tile, attr) = (oam[4 * k] as i32, oam[4 * k + 1] as i32, oam[4 * k + 2] as usize, oam[4 * k + 3]);
    let ol = line as i32 + 16 - y;
    if nsel < 10 && ol >= 0 && ol < h {
      let row = if attr & 0x40 != 0 { h - 1 - ol } else { ol } as usize;
      let t = if double_height { tile & 0xfe } else { tile };
      let a = t * 16 + row * 2;
      sx[nsel] = x; slo[nsel] = vram[a]; shi[nsel] = vram[a + 1]; sattr[nsel] = attr;
      nsel += 1;
    }
    k += 1;
  }
  let mut out = [0u8; 176];
  let mut p = 0;
  while p < 176 {
    let mut best_x: i32 = 1000; let mut best_val: u8 = 0;
    let mut i = 0;
    while i < 10 {
      if i < nsel {
        let (x, attr) = (sx[i], sattr[i]);
        if x < 168 && x <= p as i32 && (p as i32) < x + 8 {
          let j = (p as i32 - x) as u32;
          let bit = if attr & 0x20 != 0 { j } else { 7 - j };
          let colour = (((shi[i] >> bit) & 1) << 1) | ((slo[i] >> bit) & 1);
          // strict < : among equal X the earlier OAM entry (earlier in selection order) wins
          if colour != 0 && x < best_x {
            best_x = x;
            best_val = 0x80 | (if attr & 0x80 == 0 { 0x40 } else { 0 }) | (((attr & 0x10) >> 4) << 2) | colour;
          }
        }
      }
      i += 1;
    }
    out[p] = best_val;
    p += 1;
  }
  out
}

/// ime / rs encoding: 0 = Enabled / Run, 1 = Disabled / Stop, 2 = EnableNext / Halt
pub fn irq_verdicts(i: &IrqIn, o: &IrqOut) -> [bool; 11] {
  let mut v = [true; 11];
  let pending = i.if0 & i.ie0;
  let regs_same = o.pairs == i.pairs;
  if pending == 0 {
    v[0] = o.rs == i.rs && o.ime == i.ime && o.sp == i.sp0 as u32 && o.pc == i.pc0 as u32 && o.cyc == i.cyc0 && o.if1 == i.if0 && o.ie1 == i.ie0 && o.nw == 0 && regs_same;
  } else if i.ime != 0 {
    v[1] = o.rs == 0;
    v[2] = o.ime == i.ime && o.sp == i.sp0 as u32 && o.pc == i.pc0 as u32 && o.cyc == i.cyc0 && o.if1 == i.if0 && o.ie1 == i.ie0 && o.nw == 0 && regs_same;
  } else {
    let sp1 = i.sp0.wrapping_sub(1); let sp2 = i.sp0.wrapping_sub(2);
    let (pch, pcl) = ((i.pc0 >> 8) as u8, i.pc0 as u8);
    // bus contract (C10) for the two registers a push can hit: 0xFFFF sets IE, 0xFF0F sets IF (five bits each)
    let ie_mid = if sp1 == 0xffff { pch & 0x1f } else { i.ie0 };
    let if_mid = if sp1 == 0xff0f { pch & 0x1f } else { i.if0 };
    let p_mid = if_mid & ie_mid;                    // sampled between the two writes
    let ie_end = if sp2 == 0xffff { pcl & 0x1f } else { ie_mid };
    let if_after_push = if sp2 == 0xff0f { pcl & 0x1f } else { if_mid };
    let (vector, bit): (u32, u8) = if p_mid == 0 { (0, 0) } else if p_mid & 1 != 0 { (0x40, 1) } else if p_mid & 2 != 0 { (0x48, 2) }
      else if p_mid & 4 != 0 { (0x50, 4) } else if p_mid & 8 != 0 { (0x58, 8) } else { (0x60, 16) };
    v[3] = o.rs == 0 && o.ime == 1;
    v[4] = o.nw == 2 && o.w0 == (sp1, pch) && o.w1 == (sp2, pcl);
    v[5] = o.sp == sp2 as u32;
    v[6] = o.pc == vector;
    v[7] = o.if1 == if_after_push & !bit;
    v[8] = o.ie1 == ie_end;
    v[9] = o.cyc == i.cyc0 + 5;
    v[10] = regs_same;
  }
  v
}
// reference parsers for the debugger's address syntax (C20), shared by the harnesses and the native replay
pub fn spec_hex(b: &[u8]) -> Option<u16> {
    if b.len() == 0 { return None; }
    let mut v: u32 = 0; let mut i = 0;
    while i < b.len() {
      let c = b[i];
      let d = if c >= b'0' && c <= b'9' { c - b'0' } else if c >= b'a' && c <= b'f' { c - b'a' + 10 } else if c >= b'A' && c <= b'F' { c - b'A' + 10 } else { return None; };
      v = v * 16 + d as u32; if v > 0xffff { return None; }
      i += 1;
    }
    Some(v as u16)
  }
pub fn spec_dec(b: &[u8]) -> Option<u16> {
    if b.len() == 0 { return None; }
    let mut v: u32 = 0; let mut i = 0;
    while i < b.len() {
      let c = b[i];
      if !(c >= b'0' && c <= b'9') { return None; }
      v = v * 10 + (c - b'0') as u32; if v > 0xffff { return None; }
      i += 1;
    }
    Some(v as u16)
  }

#[cfg(all(kani, feature = "h_misc"))]
pub mod harnesses {
  use std::io::{self, Write};

  // ------------------------------------------------------------------ C18: what SerialComms::set_control emits
  static mut OUT: [u8; 4] = [0; 4];
  static mut NOUT: usize = 0;
  static mut NFLUSH: usize = 0;
  fn stub_write(_s: &mut io::Stdout, buf: &[u8]) -> io::Result<usize> {
    unsafe { let mut i = 0; while i < buf.len() { if NOUT < 4 { OUT[NOUT] = buf[i]; } NOUT += 1; i += 1; } }
    Ok(buf.len())
  }
  fn stub_flush(_s: &mut io::Stdout) -> io::Result<()> { unsafe { NFLUSH += 1; } Ok(()) }
  static mut NFMT: usize = 0;
  /// Text formatting on the host stream: a literal without arguments is recorded byte for byte; anything formatted at run time
  /// is only counted (core::fmt is out of CBMC's reach). Formatted text is UTF-8, so it cannot be a raw data byte >= 0x80;
  /// whether the real code then emits the wrong bytes is decided by the native replay (replay-serial), not by this stub.
  fn stub_write_fmt(_s: &mut io::Stdout, args: core::fmt::Arguments<'_>) -> io::Result<()> {
    match args.as_str() {
      Some(lit) => { let b = lit.as_bytes(); unsafe { let mut i = 0; while i < 4 { if i < b.len() && NOUT + i < 4 { OUT[NOUT + i] = b[i]; } i += 1; } NOUT += b.len(); } },
      None => unsafe { NFMT += 1; },
    }
    Ok(())
  }
  /// io::stdout() itself (OnceLock + reentrant mutex) is irrelevant to the property and very expensive for CBMC: the
  /// handle is never dereferenced once write/flush are stubbed, so a dummy handle stands in for it.
  fn stub_stdout() -> io::Stdout { unsafe { core::mem::transmute::<usize, io::Stdout>(0x1000) } }

  #[kani::proof]
  #[kani::stub(<std::io::Stdout as std::io::Write>::write, stub_write)]
  #[kani::stub(<std::io::Stdout as std::io::Write>::flush, stub_flush)]
  #[kani::stub(std::io::stdout, stub_stdout)]
  #[kani::stub(<std::io::Stdout as std::io::Write>::write_fmt, stub_write_fmt)]
  fn serial_set_control() {
    let mut s = crate::devices::serial::SerialComms::new();
    let d0: u8 = kani::any(); let c0: u8 = kani::any();
    // arbitrary reachable state: any latch, any previous control value (bit 7 clear so that nothing was emitted yet)
    s.set_data(d0);
    s.set_control(c0 & 0x7f);
    let emitted_before = unsafe { NOUT };
    let d: u8 = kani::any();
    s.set_data(d);                       // writing the data register alone emits nothing
    let after_data = unsafe { NOUT };
    let v: u8 = kani::any();
    s.set_control(v);
    let (n, first) = unsafe { (NOUT, OUT[0]) };
    let sel: u8 = kani::any();
    match sel {
      0 => assert!(emitted_before == 0, "C18: a control write with bit 7 clear emits nothing"),
      1 => assert!(after_data == emitted_before, "C18: a data write emits nothing"),
      2 => assert!(if v & 0x80 != 0 { n == 1 && first == d } else { n == 0 }, "C18: bit 7 set emits exactly the latched byte, bit 7 clear emits nothing"),
      3 => assert!(s.get_control() == v && s.get_data() == d, "C18: SC/SB hold the written values"),
      4 => assert!(unsafe { NFMT } == 0 || d < 0x80, "C18: the data byte is not routed through run-time text formatting (UTF-8 cannot carry a raw byte >= 0x80)"),
      _ => { kani::cover!(true, "reachable"); },
    }
  }

  // ------------------------------------------------------------------ C19: cartridge header
  use crate::cart::Header;
  fn any_header() -> (Header, [u8; 80]) {
    let bytes: [u8; 80] = kani::any();
    // Header is repr(C, packed), 80 bytes, all fields plain bytes: every bit pattern is a valid value
    (unsafe { core::mem::transmute::<[u8; 80], Header>(bytes) }, bytes)
  }
  /// checksum of header bytes 0x134-0x14C (offsets 0x34..0x4d of the 80-byte header read at 0x100)
  fn spec_checksum(b: &[u8; 80]) -> u8 {
    let mut x: u8 = 0; let mut i = 0x34;
    while i <= 0x4c { x = x.wrapping_sub(b[i]).wrapping_sub(1); i += 1; }
    x
  }
  #[kani::proof] #[kani::unwind(27)]
  fn header_checksum() {
    let (h, b) = any_header();
    assert!(core::mem::size_of::<Header>() == 80, "C19: header layout is 80 bytes");
    assert!(h.valid_checksum() == (spec_checksum(&b) == b[0x4d]), "C19: accepted iff checksum of 0x134-0x14C equals byte 0x14D");
    kani::cover!(h.valid_checksum(), "reachable: some header is accepted");
  }
  fn spec_rom_banks(code: u8) -> usize {
    match code { 0 => 2, 1 => 4, 2 => 8, 3 => 16, 4 => 32, 5 => 64, 6 => 128, 7 => 256, 8 => 512, 0x52 => 72, 0x53 => 80, 0x54 => 96, _ => 2 }
  }
  fn spec_ram_bytes(code: u8) -> usize {
    match code { 0 => 0, 1 => 2048, 2 => 8192, 3 => 32768, 4 => 131072, 5 => 65536, _ => 0 }
  }
  #[kani::proof]
  fn header_size_tables() {
    let (h, b) = any_header();
    let sel: u8 = kani::any();
    match sel {
      0 => assert!(h.get_rom_bank_count() == spec_rom_banks(b[0x48]), "C19: ROM bank count from the header table"),
      1 => assert!(h.get_rom_size_bytes() == spec_rom_banks(b[0x48]) * 0x4000, "C19: ROM size = banks x 16 KiB"),
      2 => assert!(h.get_ram_size_bytes() == spec_ram_bytes(b[0x49]), "C19: RAM size from the header table"),
      3 => assert!(h.get_rom_size_bytes() >= 0x8000 && h.get_rom_size_bytes() % 0x4000 == 0 && h.get_rom_size_bytes() <= 0x80_0000 && h.get_ram_size_bytes() <= 0x20000,
                   "C11: every declarable size satisfies the bus invariant mem_wf"),
      _ => { kani::cover!(true, "reachable"); },
    }
  }
  #[kani::proof]
  fn header_cart_type_supported() {
    let (h, b) = any_header();
    let t = b[0x47];
    kani::assume(t == 0 || t == 1 || t == 2 || t == 3 || t == 0x11 || t == 0x12 || t == 0x13);
    let cs = h.create_cart_state();     // must return (no panic) for every supported type
    let rom_bank = cs.get_rom_bank(); let ram_bank = cs.get_ram_bank();
    assert!(rom_bank == 1 && ram_bank == 0, "C19: a fresh controller maps ROM bank 1 / RAM bank 0");
    kani::cover!(true, "reachable");
  }
  #[kani::proof] #[kani::should_panic]
  fn header_cart_type_unsupported() {
    let (h, b) = any_header();
    let t = b[0x47];
    kani::assume(!(t == 0 || t == 1 || t == 2 || t == 3 || t == 0x11 || t == 0x12 || t == 0x13));
    let _ = h.create_cart_state();      // controlled termination: the only outcome is the "Unsupported cart type" panic
  }

  // ------------------------------------------------------------------ C15: tile::interleave
  #[kani::proof] #[kani::unwind(9)]
  fn leaf_interleave() {
    let lo: u8 = kani::any(); let hi: u8 = kani::any();
    let r = crate::devices::video::tile::interleave(lo, hi);
    // pixel k (0 = leftmost = bit 7) has colour ((hi bit) << 1) | (lo bit), stored at bits 15-2k, 14-2k
    let mut k = 0;
    while k < 8 {
      let hb = ((hi >> (7 - k)) & 1) as u16; let lb = ((lo >> (7 - k)) & 1) as u16;
      assert!((r >> (14 - 2 * k)) & 3 == (hb << 1) | lb, "C15: interleave places pixel k's two colour bits at bits 15-2k..14-2k");
      k += 1;
    }
  }

  // ------------------------------------------------------------------ C20: debugger strings (BOUNDED by input length)
  use super::{spec_hex, spec_dec};
  const NHEX: usize = 6;
  #[kani::proof] #[kani::unwind(9)]
  fn strs_parse_address_hex() {
    let bytes: [u8; NHEX] = kani::any();
    let len: usize = kani::any();
    kani::assume(len >= 2 && len <= NHEX);
    kani::assume(bytes[0] == b'0' && bytes[1] == b'x');
    // printable ASCII without whitespace; a leading '+' is accepted by from_str_radix and not covered by the property
    let mut k = 2; while k < NHEX { kani::assume(bytes[k] < 0x80 && bytes[k] > b' ' && bytes[k] != b'+'); k += 1; }
    let s = match core::str::from_utf8(&bytes[..len]) { Ok(s) => s, Err(_) => return };
    let r = crate::debug::command::parse_address(s);
    assert!(r == spec_hex(&bytes[2..len]), "C20: 0x-prefixed hexadecimal parses to exactly its value, malformed / out of range rejected");
  }
  const NDEC: usize = 6;
  #[kani::proof] #[kani::unwind(9)]
  fn strs_parse_address_dec() {
    let bytes: [u8; NDEC] = kani::any();
    let len: usize = kani::any();
    kani::assume(len >= 1 && len <= NDEC);
    let mut k = 0; while k < NDEC { kani::assume(bytes[k] < 0x80 && bytes[k] > b' ' && bytes[k] != b'+'); k += 1; }
    kani::assume(!(len >= 2 && bytes[0] == b'0' && bytes[1] == b'x'));
    let s = match core::str::from_utf8(&bytes[..len]) { Ok(s) => s, Err(_) => return };
    let r = crate::debug::command::parse_address(s);
    assert!(r == spec_dec(&bytes[..len]), "C20: decimal parses to exactly its value, malformed / out of range rejected");
  }

  /// totality over arbitrary (also non-ASCII) tokens: any well-formed UTF-8 string of at most NUNI bytes gets an answer
  const NUNI: usize = 5;
  #[kani::proof] #[kani::unwind(8)]
  fn strs_parse_address_unicode() {
    let bytes: [u8; NUNI] = kani::any();
    let len: usize = kani::any();
    kani::assume(len <= NUNI);
    let s = match core::str::from_utf8(&bytes[..len]) { Ok(s) => s, Err(_) => return };
    let r = crate::debug::command::parse_address(s);
    // a token with a non-ASCII, non-whitespace character is malformed
    let mut odd = false; let mut k = 0;
    while k < NUNI { if k < len && bytes[k] >= 0x80 { odd = true; } k += 1; }
    kani::cover!(odd, "reachable: non-ASCII token");
    kani::cover!(r.is_some(), "reachable: some token parses");
  }

  // ------------------------------------------------------------------ C17: joypad (complete twin of the Verus contracts of unit joypad)
  // Reference (from the property): a line reads 0 iff a pressed button of a selected group drives it; bits 4/5 echo the
  // written select bits; a request is raised when some line goes from 1 to 0; it is reported once.
  fn jp_lines(act: u8, dir: u8, sa: bool, sd: bool) -> u8 { !((if sd { dir } else { 0 }) | (if sa { act } else { 0 })) & 0x0f }
  fn jp_p1(act: u8, dir: u8, sa: bool, sd: bool) -> u8 { jp_lines(act, dir, sa, sd) | (if sd { 0 } else { 0x10 }) | (if sa { 0 } else { 0x20 }) }
  fn jp_button(k: u8) -> crate::devices::joypad::Button {
    use crate::devices::joypad::Button;
    match k { 0 => Button::A, 1 => Button::B, 2 => Button::Select, 3 => Button::Start, 4 => Button::Right, 5 => Button::Left, 6 => Button::Up, _ => Button::Down }
  }
  #[kani::proof] #[kani::unwind(10)]
  fn joypad_twin() {
    let mut j = crate::devices::joypad::Joypad::new();
    // any reachable state: any set of held buttons, any selection, a request pending or not
    let held: u8 = kani::any();
    let mut k = 0u8;
    while k < 8 { if held & (1 << k) != 0 { j.press_button(jp_button(k)); } k += 1; }
    let sel0: u8 = kani::any();
    j.set_value(sel0);
    let (mut act, mut dir) = (held & 0x0f, held >> 4);
    let (mut sa, mut sd) = (sel0 & 0x20 == 0, sel0 & 0x10 == 0);
    // nothing is selected while the buttons are pressed (no line can fall); the select write may latch a request
    let mut pending = 0x0f & !jp_lines(act, dir, sa, sd) & 0x0f != 0;
    let drain: bool = kani::any();
    if drain { let f = j.get_interrupt().as_u8(); assert!((f == 16) == pending && (f == 0 || f == 16), "C17: the joypad interrupt is requested exactly when a line falls (and stays pending until collected)"); pending = false; }
    let read0 = j.get_value();
    let prev = jp_lines(act, dir, sa, sd);
    // one arbitrary operation
    let op: u8 = kani::any(); let arg: u8 = kani::any();
    kani::assume(op < 4);
    let mut fell = false;
    match op {
      0 => { let b = arg & 7; j.press_button(jp_button(b)); if b < 4 { act |= 1 << b; } else { dir |= 1 << (b - 4); } fell = prev & !jp_lines(act, dir, sa, sd) & 0x0f != 0; },
      1 => { let b = arg & 7; j.release_button(jp_button(b)); if b < 4 { act &= !(1 << b); } else { dir &= !(1 << (b - 4)); } },
      2 => { j.set_value(arg); sa = arg & 0x20 == 0; sd = arg & 0x10 == 0; fell = prev & !jp_lines(act, dir, sa, sd) & 0x0f != 0; },
      _ => {},
    }
    let read1 = j.get_value();
    let got = j.get_interrupt().as_u8();
    let again = j.get_interrupt().as_u8();
    let sel: u8 = kani::any();
    match sel {
      0 => assert!(read0 & 0x3f == jp_p1(held & 0x0f, held >> 4, sel0 & 0x20 == 0, sel0 & 0x10 == 0), "C17: P1 reads the lines of the selected groups and echoes the select bits"),
      1 => assert!(read1 & 0x3f == jp_p1(act, dir, sa, sd), "C17: P1 after a press / release / select write"),
      2 => assert!((got == 16) == (pending || fell) && (got == 0 || got == 16), "C17: the joypad interrupt is requested exactly when a line falls (and stays pending until collected)"),
      3 => assert!(again == 0, "C17: a request is reported once"),
      _ => { kani::cover!(fell, "reachable: a line falls"); kani::cover!(pending && !fell, "reachable: pending request survives"); },
    }
  }

  // ------------------------------------------------------------------ C07: Core::handle_interrupt (loop-free twin of the Verus contract)
  // The bus is replaced by a stub that implements exactly the part of the bus contract (C10) a push can interact with:
  // a write to 0xFFFF sets IE, a write to 0xFF0F sets IF (5 bits each), every write is logged.
  use crate::emulator::{Core, InterruptState, RunState};
  use crate::devices::interrupts::InterruptFlag;
  static mut IRQ_CORE: *mut Core = core::ptr::null_mut();
  static mut WLOG: [(u16, u8); 4] = [(0, 0); 4];
  static mut NW: usize = 0;
  extern "sysv64" fn irq_stub_write(_a: *mut crate::mem::MemoryAreas, addr: u16, value: u8) {
    unsafe {
      if NW < 4 { WLOG[NW] = (addr, value); }
      NW += 1;
      let core = &mut *IRQ_CORE;
      if addr == 0xffff { core.memory.io.interrupt_mask = value & 0x1f; }
      if addr == 0xff0f { core.memory.io.interrupt_flag = InterruptFlag::new(value & 0x1f); }
    }
  }
  fn lcd_stub() -> crate::devices::video::lcd::LCD { crate::devices::video::lcd::LCD::verif_empty() }

  #[kani::proof]
  #[kani::stub(crate::mem::memory_write_byte, irq_stub_write)]
  #[kani::stub(crate::devices::video::lcd::LCD::new, lcd_stub)]
  fn irq_dispatch() {
    let mut io = crate::devices::io::IO::new();
    let if0: u8 = kani::any::<u8>() & 0x1f; let ie0: u8 = kani::any::<u8>() & 0x1f;
    io.interrupt_flag = InterruptFlag::new(if0); io.interrupt_mask = ie0;
    let (sp0, pc0): (u16, u16) = (kani::any(), kani::any());
    let cyc0: u8 = kani::any();
    let ime_sel: u8 = kani::any(); let rs_sel: u8 = kani::any();
    kani::assume(ime_sel < 3 && rs_sel < 3);
    let mut regs = crate::cpu::Registers::new();
    regs.sp = sp0 as u32; regs.ip = pc0 as u32; regs.cycles = cyc0 as u32;
    regs.af = kani::any::<u16>() as u32; regs.bc = kani::any::<u16>() as u32; regs.de = kani::any::<u16>() as u32; regs.hl = kani::any::<u16>() as u32;
    let (af0, bc0, de0, hl0) = (regs.af, regs.bc, regs.de, regs.hl);
    let mut core = Core {
      cache: crate::cache::CodeCache::verif_empty(), registers: regs, last_block_cycle_length: 0,
      memory: crate::mem::MemoryAreas::verif_with_io(io),
      interrupts_enabled: match ime_sel { 0 => InterruptState::Enabled, 1 => InterruptState::Disabled, _ => InterruptState::EnableNext },
      run_state: match rs_sel { 0 => RunState::Run, 1 => RunState::Stop, _ => RunState::Halt },
    };
    unsafe { IRQ_CORE = &mut core as *mut Core; NW = 0; }
    core.handle_interrupt();
    let (sp, pc, cyc) = (core.registers.sp, core.registers.ip, core.registers.cycles);
    let (af, bc, de, hl) = (core.registers.af, core.registers.bc, core.registers.de, core.registers.hl);
    let if1 = core.memory.io.interrupt_flag.as_u8(); let ie1 = core.memory.io.interrupt_mask;
    let (nw, w0, w1) = unsafe { (NW, WLOG[0], WLOG[1]) };
    let ime1 = match core.interrupts_enabled { InterruptState::Enabled => 0u8, InterruptState::Disabled => 1, InterruptState::EnableNext => 2 };
    let rs1 = match core.run_state { RunState::Run => 0u8, RunState::Stop => 1, RunState::Halt => 2 };
    core::mem::forget(core);

    let i = super::IrqIn { if0, ie0, ime: ime_sel, rs: rs_sel, sp0, pc0, cyc0: cyc0 as u32, pairs: [af0, bc0, de0, hl0] };
    let o = super::IrqOut { sp, pc, cyc, pairs: [af, bc, de, hl], if1, ie1, ime: ime1, rs: rs1, nw, w0, w1 };
    let v = super::irq_verdicts(&i, &o);
    let sel: u8 = kani::any();
    match sel {
      0 => assert!(v[0], "C07: nothing requested-and-enabled: nothing changes"),
      1 => assert!(v[1], "C07: a pending interrupt resumes a halted or stopped CPU"),
      2 => assert!(v[2], "C07: master enable off: IF, IE, PC, SP, memory unchanged"),
      3 => assert!(v[3], "C07: dispatch resumes the CPU and clears the master enable"),
      4 => assert!(v[4], "C07: PC is pushed high byte first at SP-1, then the low byte at SP-2"),
      5 => assert!(v[5], "C07: SP decreases by two modulo 2^16"),
      6 => assert!(v[6], "C07: jumps to the vector of the highest-priority pending source (0x0000 if the push cancelled them all)"),
      7 => assert!(v[7], "C07: only the IF bit of the dispatched source is cleared (none on cancellation)"),
      8 => assert!(v[8], "C07: IE unchanged except by the push itself"),
      9 => assert!(v[9], "C07: five machine cycles are charged"),
      10 => assert!(v[10], "C07: AF, BC, DE, HL unchanged"),
      _ => { kani::cover!(if0 & ie0 != 0 && ime_sel == 0, "reachable: dispatch"); kani::cover!(if0 & ie0 == 0, "reachable: nothing pending"); },
    }
  }

  // ------------------------------------------------------------------ C20: command lines (BOUNDED by input length)
  const NLINE: usize = 4;
  /// totality: parse_command returns (Some or None) for every UTF-8 line of at most NLINE bytes - no panic, no unchecked slice out of bounds
  #[kani::proof] #[kani::unwind(8)]
  fn strs_parse_command_total() {
    let bytes: [u8; NLINE] = kani::any();
    let len: usize = kani::any();
    kani::assume(len <= NLINE);
    let s = match core::str::from_utf8(&bytes[..len]) { Ok(s) => s, Err(_) => return };
    let r = crate::debug::command::parse_command(s);
    // command words are recognised regardless of letter case / surrounding whitespace (checked on the one-letter commands that fit the bound)
    if len >= 1 && (bytes[0] == b'c' || bytes[0] == b'C') && (len == 1 || bytes[1] == b' ') && (len <= 2 || bytes[2] == b' ') && (len <= 3 || bytes[3] == b' ') {
      assert!(r == Some(crate::debug::command::Command::Continue), "C20: `c` / `C` with surrounding whitespace is Continue");
    }
    kani::cover!(r.is_some(), "reachable: some line parses");
  }

  // ------------------------------------------------------------------ C15: object line (BOUNDED)
  // A: NOBJ fully symbolic OAM entries (Y, X, attributes) with concrete, distinct tiles whose 32 data bytes are symbolic; the other
  //    entries are off-line.  A first composition with objects on precedes the checked one (a stale cache must not show through).
  const NOBJ: usize = 3;
  #[kani::proof] #[kani::unwind(180)]
  #[kani::stub(crate::devices::video::lcd::LCD::new, lcd_stub)]
  fn leaf_object_line() {
    let mut v = crate::devices::video::VideoState::new();
    let dh: bool = kani::any();
    let line: u8 = kani::any();
    kani::assume(line < 144);
    let mut oam_v = vec![0u8; 0xa0];      // Y = 0: never on a visible line
    let mut vram_v = vec![0u8; 0x2000];
    let mut t = 0;
    while t < NOBJ {
      oam_v[4 * t] = kani::any(); oam_v[4 * t + 1] = kani::any(); oam_v[4 * t + 3] = kani::any();
      oam_v[4 * t + 2] = (2 * t + 2) as u8;                 // tiles 2, 4, 6 (even: 8x16 uses the pair t, t+1)
      let base = (2 * t + 2) * 16;
      let mut r = 0;
      while r < 32 { vram_v[base + r] = kani::any(); r += 1; }
      t += 1;
    }
    let oam = oam_v.into_boxed_slice(); let vram = vram_v.into_boxed_slice();
    // history: a line composed with objects enabled
    v.set_lcd_control(0x82 | if dh { 4 } else { 0 });
    let _ = v.verif_object_line(line, &vram, &oam);
    // the checked composition: objects enabled or not
    let enabled: bool = kani::any();
    v.set_lcd_control(0x80 | if enabled { 2 } else { 0 } | if dh { 4 } else { 0 });
    let got = v.verif_object_line(line, &vram, &oam);
    let want = if enabled { super::ref_object_line(&oam, &vram, line, dh, NOBJ) } else { [0u8; 176] };
    let p: usize = kani::any();
    kani::assume(p < 176);
    assert!(got[p] == want[p], "C15: object line cache equals the reference object composition (selection, flips, 8x16, priority, transparency)");
    kani::cover!(want[p] != 0, "reachable: some object pixel");
  }
  // B: eleven entries that may or may not cover the line (symbolic), symbolic X, one shared opaque tile: the ten-per-line limit
  #[kani::proof] #[kani::unwind(180)]
  #[kani::stub(crate::devices::video::lcd::LCD::new, lcd_stub)]
  fn leaf_object_limit() {
    let mut v = crate::devices::video::VideoState::new();
    v.set_lcd_control(0x82);
    let line: u8 = 40;
    let mut oam_v = vec![0u8; 0xa0];
    let mut vram_v = vec![0u8; 0x2000];
    let mut r = 0;
    while r < 16 { vram_v[16 + r] = 0xff; r += 1; }          // tile 1: every pixel colour 3
    let mut t = 0;
    while t < 11 {
      let on: bool = kani::any();
      oam_v[4 * t] = if on { line + 16 } else { 0 };
      oam_v[4 * t + 1] = kani::any();
      oam_v[4 * t + 2] = 1;
      t += 1;
    }
    let oam = oam_v.into_boxed_slice(); let vram = vram_v.into_boxed_slice();
    let got = v.verif_object_line(line, &vram, &oam);
    let want = super::ref_object_line(&oam, &vram, line, false, 11);
    let p: usize = kani::any();
    kani::assume(p < 176);
    assert!(got[p] == want[p], "C15: at most ten objects per line, chosen in OAM order (hidden ones count)");
  }
}
