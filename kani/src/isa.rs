//! C05 / C06: the real decoder + interpreter against the independent SM83 reference (sm83.rs), one instruction,
//! every register / flag / immediate / bus value arbitrary.
use crate::cpu::Registers;
use crate::sm83::{self, Cpu, Status, MAX_OPS};
use crate::src_any::Src;
use crate::bus;

pub const NCHECK: usize = 14;
pub const CHECK_NAMES: [&str; NCHECK] = [
  "C05: AF", "C05: BC", "C05: DE", "C05: HL", "C05,C06: SP", "C06: PC", "C06: cycles", "C06: length", "C06: block end",
  "C06,C08: status", "C05,C06: number of bus accesses", "C05,C06,C18: bus access order and content", "C05: register pairs stay within 16 bits",
  "C06: SP and PC stay within 16 bits" ];

pub struct Outcome { pub ok: [bool; NCHECK], pub detail: [u32; 8] }

/// Runs `bytes` (bytes[0], and bytes[1] for CB, are concrete in the harness) on the real code and on the spec.
pub fn check_interp<S: Src>(mut bytes: [u8; 3], imm_free: [bool; 2], s: &mut S) -> Outcome {
  if imm_free[0] { bytes[1] = s.u8(); }
  if imm_free[1] { bytes[2] = s.u8(); }
  bus::setup(s);
  let c0 = Cpu { a: s.u8(), f: s.u8() & 0xf0, b: s.u8(), c: s.u8(), d: s.u8(), e: s.u8(), h: s.u8(), l: s.u8(), sp: s.u16(), pc: s.u16() };
  // call-site precondition (interpreter::run_next_op): the instruction lies inside one fetch slice
  s.assume(c0.pc <= 0xfffc && (c0.pc & 0xfff) <= 0xffc);
  let mut ri = Registers { af: ((c0.a as u32) << 8) | c0.f as u32, bc: ((c0.b as u32) << 8) | c0.c as u32, de: ((c0.d as u32) << 8) | c0.e as u32,
                           hl: ((c0.h as u32) << 8) | c0.l as u32, sp: c0.sp as u32, ip: c0.pc as u32, cycles: 0 };
  let (op, len, cycles) = crate::decoder::decode(&bytes);
  let be = op.is_block_end();
  let st = crate::interpreter::run_op(op, &mut ri, core::ptr::null_mut(), len as u32);
  ri.cycles += (cycles / 4) as u32;
  let (ev, n) = bus::snapshot();
  let mut rd = |a: u16| -> u8 { bus::value(a) };
  let out = sm83::exec(bytes, c0, &mut rd);
  let e = out.cpu;
  let want_st = match out.status { Status::Normal => 0, Status::Stop => 1, Status::Halt => 2, Status::Di => 3, Status::Ei => 4, Status::EiImmediate => 5 };
  let (af, bc, de, hl, sp, ip, cyc) = (ri.af, ri.bc, ri.de, ri.hl, ri.sp, ri.ip, ri.cycles);
  let mut order_ok = true;
  let mut k = 0;
  while k < MAX_OPS {
    if k < n && k < out.nops {
      if !(ev[k].write == out.ops[k].write && ev[k].addr == out.ops[k].addr && ev[k].val == out.ops[k].val) { order_ok = false; }
    }
    k += 1;
  }
  Outcome { ok: [
    af == ((e.a as u32) << 8 | e.f as u32),
    bc == ((e.b as u32) << 8 | e.c as u32),
    de == ((e.d as u32) << 8 | e.e as u32),
    hl == ((e.h as u32) << 8 | e.l as u32),
    sp == e.sp as u32,
    ip == e.pc as u32,
    cyc == out.mcycles,
    len as u16 == out.len,
    be == out.block_end,
    st == want_st,
    n == out.nops && n <= MAX_OPS,
    order_ok,
    af < 0x10000 && bc < 0x10000 && de < 0x10000 && hl < 0x10000 && af & 0x0f == 0,
    sp < 0x10000 && ip < 0x10000,
  ], detail: [af, bc, de, hl, sp, ip, cyc, st as u32] }
}

/// the eleven undefined encodings decode to Op::Invalid and are never executed as something else
pub fn check_undefined(b0: u8) -> bool {
  let bytes = [b0, 0, 0];
  let (op, _len, _cycles) = crate::decoder::decode(&bytes);
  matches!(op, crate::decoder::ops::Op::Invalid(_)) && sm83::is_undefined(b0)
}

#[cfg(all(kani, feature = "h_isa"))]
mod harnesses {
  use super::*;
  use crate::bus::{stub_read, stub_write};
  macro_rules! select_assert {
    ($o:expr) => {{
      let sel: u8 = kani::any();
      match sel {
        0 => assert!($o.ok[0], "C05: AF"), 1 => assert!($o.ok[1], "C05: BC"), 2 => assert!($o.ok[2], "C05: DE"), 3 => assert!($o.ok[3], "C05: HL"),
        4 => assert!($o.ok[4], "C05,C06: SP"), 5 => assert!($o.ok[5], "C06: PC"), 6 => assert!($o.ok[6], "C06: cycles"), 7 => assert!($o.ok[7], "C06: length"),
        8 => assert!($o.ok[8], "C06: block end"), 9 => assert!($o.ok[9], "C06,C08: status"), 10 => assert!($o.ok[10], "C05,C06: number of bus accesses"),
        11 => assert!($o.ok[11], "C05,C06,C18: bus access order and content"), 12 => assert!($o.ok[12], "C05: register pairs stay within 16 bits"),
        13 => assert!($o.ok[13], "C06: SP and PC stay within 16 bits"),
        _ => { kani::cover!(true, "reachable"); },
      }
    }};
  }
  fn run(bytes: [u8; 3], imm_free: [bool; 2]) { let o = check_interp(bytes, imm_free, &mut crate::src_any::K); select_assert!(o); }
  include!(concat!(env!("CARGO_MANIFEST_DIR"), "/gen/isa_gen.rs"));
}
