//! Minimal x86-64 semantics for exactly the instruction forms the emitter uses.
//! PROTOTYPE (design-phase probe).
#![allow(dead_code)]

#[cfg(kani)]
pub fn havoc_bool() -> bool { kani::any() }
#[cfg(kani)]
pub fn havoc_u64() -> u64 { kani::any() }
#[cfg(not(kani))]
pub fn havoc_bool() -> bool { false }
#[cfg(not(kani))]
pub fn havoc_u64() -> u64 { 0xdead_beef_dead_beef }

pub const RAX: usize = 0; pub const RCX: usize = 1; pub const RDX: usize = 2; pub const RBX: usize = 3;
pub const RSP: usize = 4; pub const RBP: usize = 5; pub const RSI: usize = 6; pub const RDI: usize = 7;
pub const R12: usize = 12; pub const R13: usize = 13; pub const R14: usize = 14; pub const R15: usize = 15;

pub const STACK_BYTES: usize = 96;

#[derive(Clone, Copy, PartialEq, Eq, Debug)]
pub enum Exit { Running, FellThrough, JmpReg(usize), Ret, Fault(u32) }
pub enum Next { Cont, Branch(bool, usize, usize), Done }

pub trait Env {
  /// called on `call rax`; must perform the helper and return Some(()) or None for unknown target
  fn call(&mut self, target: u64, cpu: &mut X86) -> bool;
  /// memory at [rdi+disp] (register file) -- 4/2 byte accesses
  fn load(&mut self, addr: u64, size: usize) -> u64;
  fn store(&mut self, addr: u64, size: usize, value: u64);
}

pub struct X86 {
  pub r: [u64; 16],
  pub cf: bool, pub pf: bool, pub af: bool, pub zf: bool, pub sf: bool, pub of: bool,
  /// model stack, grows down; `sp_off` is the byte offset of rsp inside `stack`
  pub stack: [u8; STACK_BYTES],
  pub sp_off: usize,
  pub pc: usize,
  pub exit: Exit,
  pub steps: u32,
  pub fault: u32,
  /// immediates supplied out of band: (position in the template, value); position usize::MAX = unused
  pub imm: [(usize, u8); 6],
}

fn parity(b: u8) -> bool { b.count_ones() % 2 == 0 }

fn mask(bits: u32) -> u64 { if bits == 64 { !0 } else { (1u64 << bits) - 1 } }

impl X86 {
  pub fn new(r: [u64; 16]) -> Self {
    X86 { r, cf: false, pf: false, af: false, zf: false, sf: false, of: false,
      stack: [0; STACK_BYTES], sp_off: STACK_BYTES, pc: 0, exit: Exit::Running, steps: 0, fault: 0, imm: [(usize::MAX, 0); 6] }
  }

  pub fn rflags(&self) -> u64 {
    (self.cf as u64) | 2 | ((self.pf as u64) << 2) | ((self.af as u64) << 4)
      | ((self.zf as u64) << 6) | ((self.sf as u64) << 7) | ((self.of as u64) << 11) | 0x200
  }
  pub fn set_rflags(&mut self, v: u64) {
    self.cf = v & 1 != 0; self.pf = v & 4 != 0; self.af = v & 0x10 != 0;
    self.zf = v & 0x40 != 0; self.sf = v & 0x80 != 0; self.of = v & 0x800 != 0;
  }
  pub fn havoc_flags(&mut self) {
    self.cf = havoc_bool(); self.pf = havoc_bool(); self.af = havoc_bool();
    self.zf = havoc_bool(); self.sf = havoc_bool(); self.of = havoc_bool();
  }

  // ---- register access ----
  fn get8(&self, idx: usize, rex: bool) -> u8 {
    if !rex && idx >= 4 && idx < 8 { (self.r[idx - 4] >> 8) as u8 } else { self.r[idx] as u8 }
  }
  fn set8(&mut self, idx: usize, rex: bool, v: u8) {
    if !rex && idx >= 4 && idx < 8 {
      let i = idx - 4;
      self.r[i] = (self.r[i] & !0xff00) | ((v as u64) << 8);
    } else {
      self.r[idx] = (self.r[idx] & !0xff) | v as u64;
    }
  }
  fn get(&self, idx: usize, bits: u32) -> u64 { self.r[idx] & mask(bits) }
  fn set(&mut self, idx: usize, bits: u32, v: u64) {
    match bits {
      64 => self.r[idx] = v,
      32 => self.r[idx] = v & 0xffff_ffff, // zero-extends
      16 => self.r[idx] = (self.r[idx] & !0xffff) | (v & 0xffff),
      _ => self.r[idx] = (self.r[idx] & !0xff) | (v & 0xff),
    }
  }

  // ---- stack ----
  fn push64(&mut self, v: u64) {
    if self.sp_off < 8 { self.exit = Exit::Fault(1); return; }
    self.sp_off -= 8;
    let b = v.to_le_bytes();
    let mut i = 0;
    while i < 8 { self.stack[self.sp_off + i] = b[i]; i += 1; }
  }
  fn pop64(&mut self) -> u64 {
    if self.sp_off + 8 > STACK_BYTES { self.exit = Exit::Fault(2); return 0; }
    let mut b = [0u8; 8];
    let mut i = 0;
    while i < 8 { b[i] = self.stack[self.sp_off + i]; i += 1; }
    self.sp_off += 8;
    u64::from_le_bytes(b)
  }
  fn stack_load(&mut self, disp: usize, size: usize) -> u64 {
    if self.sp_off + disp + size > STACK_BYTES { self.exit = Exit::Fault(3); return 0; }
    let mut v: u64 = 0;
    let mut i = 0;
    while i < size { v |= (self.stack[self.sp_off + disp + i] as u64) << (8 * i); i += 1; }
    v
  }
  fn stack_store(&mut self, disp: usize, size: usize, v: u64) {
    if self.sp_off + disp + size > STACK_BYTES { self.exit = Exit::Fault(4); return; }
    let mut i = 0;
    while i < size { self.stack[self.sp_off + disp + i] = (v >> (8 * i)) as u8; i += 1; }
  }

  // ---- ALU ----
  /// op: 0 add 1 or 2 adc 3 sbb 4 and 5 sub 6 xor 7 cmp; returns result (not written for cmp)
  fn alu(&mut self, op: u8, bits: u32, a: u64, b: u64) -> u64 {
    let m = mask(bits);
    let (a, b) = (a & m, b & m);
    let sign = 1u64 << (bits - 1);
    let cin = if (op == 2 || op == 3) && self.cf { 1u64 } else { 0 };
    let res;
    match op {
      0 | 2 => {
        let full = (a as u128) + (b as u128) + (cin as u128);
        res = (full as u64) & m;
        self.cf = full > m as u128;
        self.af = ((a & 15) + (b & 15) + cin) > 15;
        self.of = ((a ^ res) & (b ^ res) & sign) != 0;
      },
      3 | 5 | 7 => {
        let full = (a as u128).wrapping_sub(b as u128).wrapping_sub(cin as u128);
        res = (full as u64) & m;
        self.cf = (a as u128) < (b as u128) + (cin as u128);
        self.af = (a & 15) < (b & 15) + cin;
        self.of = ((a ^ b) & (a ^ res) & sign) != 0;
      },
      _ => {
        res = match op { 1 => a | b, 4 => a & b, _ => a ^ b };
        self.cf = false; self.of = false; self.af = havoc_bool();
      },
    }
    self.zf = res == 0;
    self.sf = res & sign != 0;
    self.pf = parity(res as u8);
    res
  }

  /// op: 0 rol 1 ror 2 rcl 3 rcr 4 shl 5 shr 6 sal 7 sar
  fn shift(&mut self, op: u8, bits: u32, a: u64, count: u8) -> u64 {
    let m = mask(bits);
    let a = a & m;
    let cnt = (count & if bits == 64 { 63 } else { 31 }) as u32;
    if cnt == 0 { return a; }
    let sign = 1u64 << (bits - 1);
    let res;
    match op {
      0 => { let c = cnt % bits; res = if c == 0 { a } else { ((a << c) | (a >> (bits - c))) & m };
             self.cf = res & 1 != 0; self.of = if cnt == 1 { ((res & sign != 0) != self.cf) } else { havoc_bool() }; },
      1 => { let c = cnt % bits; res = if c == 0 { a } else { ((a >> c) | (a << (bits - c))) & m };
             self.cf = res & sign != 0; self.of = if cnt == 1 { ((res & sign != 0) != (res & (sign >> 1) != 0)) } else { havoc_bool() }; },
      2 => { // rcl, only count 1 used
             if cnt != 1 { self.exit = Exit::Fault(10); return a; }
             let newcf = a & sign != 0; res = ((a << 1) | self.cf as u64) & m; self.cf = newcf;
             self.of = (res & sign != 0) != self.cf; },
      3 => { if cnt != 1 { self.exit = Exit::Fault(10); return a; }
             let newcf = a & 1 != 0; res = (a >> 1) | if self.cf { sign } else { 0 };
             self.of = (res & sign != 0) != (res & (sign >> 1) != 0); self.cf = newcf; },
      4 | 6 => { if cnt > bits { self.exit = Exit::Fault(11); return a; }
             self.cf = (a >> (bits - cnt)) & 1 != 0; res = (a << cnt) & m;
             self.of = if cnt == 1 { (res & sign != 0) != self.cf } else { havoc_bool() };
             self.zf = res == 0; self.sf = res & sign != 0; self.pf = parity(res as u8); self.af = havoc_bool(); },
      5 => { if cnt > bits { self.exit = Exit::Fault(11); return a; }
             self.cf = (a >> (cnt - 1)) & 1 != 0; res = a >> cnt;
             self.of = if cnt == 1 { a & sign != 0 } else { havoc_bool() };
             self.zf = res == 0; self.sf = res & sign != 0; self.pf = parity(res as u8); self.af = havoc_bool(); },
      _ => { if cnt > bits { self.exit = Exit::Fault(11); return a; }
             self.cf = (a >> (cnt - 1)) & 1 != 0;
             let ext = if a & sign != 0 { m & !(m >> cnt) } else { 0 };
             res = (a >> cnt) | ext;
             self.of = if cnt == 1 { false } else { havoc_bool() };
             self.zf = res == 0; self.sf = res & sign != 0; self.pf = parity(res as u8); self.af = havoc_bool(); },
    }
    res
  }

  fn cond(&self, cc: u8) -> bool {
    match cc {
      0x2 => self.cf, 0x3 => !self.cf, 0x4 => self.zf, 0x5 => !self.zf,
      0xe => self.zf || (self.sf != self.of), 0xf => !self.zf && (self.sf == self.of),
      _ => false,
    }
  }

  /// Execute one instruction at self.pc from code[..len].
  pub fn step<E: Env>(&mut self, code: &[u8], len: usize, env: &mut E) -> Next {
    if self.pc == len { self.exit = Exit::FellThrough; return Next::Done; }
    if self.pc > len || len > code.len() { self.exit = Exit::Fault(20); return Next::Done; }
    self.steps += 1;
    let mut p = self.pc;
    macro_rules! fetch { () => {{ if p >= len { self.exit = Exit::Fault(21); return Next::Done; } let b = if p == self.imm[0].0 { self.imm[0].1 } else if p == self.imm[1].0 { self.imm[1].1 } else if p == self.imm[2].0 { self.imm[2].1 } else if p == self.imm[3].0 { self.imm[3].1 } else if p == self.imm[4].0 { self.imm[4].1 } else if p == self.imm[5].0 { self.imm[5].1 } else { code[p] }; p += 1; b }}; }
    let mut opsize16 = false;
    let mut b = fetch!();
    if b == 0x66 { opsize16 = true; b = fetch!(); }
    let mut rex: u8 = 0;
    if b & 0xf0 == 0x40 { rex = b; b = fetch!(); }
    let has_rex = rex != 0;
    let (rex_w, rex_r, rex_b) = (rex & 8 != 0, rex & 4 != 0, rex & 1 != 0);
    let bits: u32 = if rex_w { 64 } else if opsize16 { 16 } else { 32 };
    let op = b;

    // helper closures can't borrow self mutably alongside; use explicit code
    macro_rules! modrm_reg_only { () => {{
      let m = fetch!();
      if m >> 6 != 3 { self.exit = Exit::Fault(22); return Next::Done; }
      (((m >> 3) & 7) as usize + if rex_r { 8 } else { 0 }, (m & 7) as usize + if rex_b { 8 } else { 0 }, (m >> 3) & 7)
    }}; }

    match op {
      // ALU r/m8, r8
      0x00 | 0x08 | 0x10 | 0x18 | 0x20 | 0x28 | 0x30 | 0x38 => {
        let (reg, rm, _) = modrm_reg_only!();
        let a = self.get8(rm, has_rex) as u64; let bb = self.get8(reg, has_rex) as u64;
        let r = self.alu(op >> 3, 8, a, bb);
        if op != 0x38 { self.set8(rm, has_rex, r as u8); }
      },
      // ALU r/m, r
      0x01 | 0x09 | 0x11 | 0x19 | 0x21 | 0x29 | 0x31 | 0x39 => {
        let (reg, rm, _) = modrm_reg_only!();
        let a = self.get(rm, bits); let bb = self.get(reg, bits);
        let r = self.alu(op >> 3, bits, a, bb);
        if op != 0x39 { self.set(rm, bits, r); }
      },
      // ALU al, imm8
      0x04 | 0x0c | 0x14 | 0x1c | 0x24 | 0x2c | 0x34 | 0x3c => {
        let imm = fetch!() as u64;
        let a = self.r[RAX] & 0xff;
        let r = self.alu(op >> 3, 8, a, imm);
        if op != 0x3c { self.set(RAX, 8, r); }
      },
      // ALU eax, imm32
      0x05 | 0x0d | 0x25 | 0x2d | 0x35 | 0x3d => {
        if bits != 32 { self.exit = Exit::Fault(23); return Next::Done; }
        let i0 = fetch!() as u64; let i1 = fetch!() as u64; let i2 = fetch!() as u64; let i3 = fetch!() as u64;
        let imm = i0 | (i1 << 8) | (i2 << 16) | (i3 << 24);
        let a = self.get(RAX, 32);
        let r = self.alu(op >> 3, 32, a, imm);
        if op != 0x3d { self.set(RAX, 32, r); }
      },
      0x0f => {
        let op2 = fetch!();
        match op2 {
          0x94 => { let (_, rm, _) = modrm_reg_only!(); let v = self.zf as u8; self.set8(rm, has_rex, v); },
          0xba => {
            let (_, rm, sub) = modrm_reg_only!();
            if sub != 4 || bits != 32 { self.exit = Exit::Fault(24); return Next::Done; }
            let imm = fetch!();
            let v = self.get(rm, 32);
            self.cf = (v >> (imm & 31)) & 1 != 0;
            self.of = havoc_bool(); self.sf = havoc_bool(); self.af = havoc_bool(); self.pf = havoc_bool();
          },
          _ => { self.exit = Exit::Fault(25); return Next::Done; },
        }
      },
      0x50..=0x57 => { let idx = (op & 7) as usize + if rex_b { 8 } else { 0 }; let v = self.r[idx]; self.push64(v); },
      0x58..=0x5f => { let idx = (op & 7) as usize + if rex_b { 8 } else { 0 }; let v = self.pop64(); self.r[idx] = v; },
      0x72 | 0x73 | 0x74 | 0x75 | 0x7e | 0x7f => {
        let rel = fetch!() as i8;
        let taken = (p as isize + rel as isize) as usize;
        return Next::Branch(self.cond(op & 0xf), taken, p);
      },
      0xeb => { let rel = fetch!() as i8; p = (p as isize + rel as isize) as usize; },
      0x80 => {
        let (_, rm, sub) = modrm_reg_only!();
        let imm = fetch!() as u64;
        let a = self.get8(rm, has_rex) as u64;
        let r = self.alu(sub, 8, a, imm);
        if sub != 7 { self.set8(rm, has_rex, r as u8); }
      },
      0x81 => {
        let (_, rm, sub) = modrm_reg_only!();
        let imm = if bits == 16 {
          let i0 = fetch!() as u64; let i1 = fetch!() as u64; i0 | (i1 << 8)
        } else {
          let i0 = fetch!() as u64; let i1 = fetch!() as u64; let i2 = fetch!() as u64; let i3 = fetch!() as u64;
          let v = i0 | (i1 << 8) | (i2 << 16) | (i3 << 24);
          if bits == 64 { v as u32 as i32 as i64 as u64 } else { v }
        };
        let a = self.get(rm, bits);
        let r = self.alu(sub, bits, a, imm);
        if sub != 7 { self.set(rm, bits, r); }
      },
      0x83 => {
        let (_, rm, sub) = modrm_reg_only!();
        let imm = fetch!() as i8 as i64 as u64;
        let a = self.get(rm, bits);
        let r = self.alu(sub, bits, a, imm);
        if sub != 7 { self.set(rm, bits, r); }
      },
      0x88 | 0x89 | 0x8b => {
        let m = fetch!();
        let md = m >> 6; let reg = ((m >> 3) & 7) as usize + if rex_r { 8 } else { 0 }; let rm_lo = m & 7;
        if md == 3 {
          let rm = rm_lo as usize + if rex_b { 8 } else { 0 };
          match op {
            0x88 => { let v = self.get8(reg, has_rex); self.set8(rm, has_rex, v); },
            0x89 => { let v = self.get(reg, bits); self.set(rm, bits, v); },
            _ => { let v = self.get(rm, bits); self.set(reg, bits, v); },
          }
        } else {
          // memory: [rsp+disp8] (sib 0x24) or [rdi] / [rdi+disp8]
          let size = if op == 0x88 { 1 } else { (bits / 8) as usize };
          let on_stack;
          if rm_lo == 4 { let sib = fetch!(); if sib != 0x24 || md != 1 { self.exit = Exit::Fault(26); return Next::Done; } on_stack = true; }
          else if rm_lo == 7 && !rex_b && md <= 1 { on_stack = false; }
          else { self.exit = Exit::Fault(27); return Next::Done; }
          let disp = if md == 1 { fetch!() as usize } else { 0 };
          if disp > 127 { self.exit = Exit::Fault(28); return Next::Done; }
          match op {
            0x88 => { let v = self.get8(reg, has_rex) as u64;
                      if on_stack { self.stack_store(disp, 1, v); } else { env.store(self.r[RDI].wrapping_add(disp as u64), 1, v); } },
            0x89 => { let v = self.get(reg, bits);
                      if on_stack { self.stack_store(disp, size, v); } else { env.store(self.r[RDI].wrapping_add(disp as u64), size, v); } },
            _ => { let v = if on_stack { self.stack_load(disp, size) } else { env.load(self.r[RDI].wrapping_add(disp as u64), size) };
                   self.set(reg, bits, v); },
          }
        }
      },
      0x90 => {},
      0x9c => { let v = self.rflags(); self.push64(v); },
      0x9d => { let v = self.pop64(); self.set_rflags(v); },
      0xa8 => { let imm = fetch!() as u64; let a = self.r[RAX] & 0xff; let _ = self.alu(4, 8, a, imm); },
      0xb0..=0xb7 => { let idx = (op & 7) as usize + if rex_b { 8 } else { 0 }; let imm = fetch!(); self.set8(idx, has_rex, imm); },
      0xb8..=0xbf => {
        let idx = (op & 7) as usize + if rex_b { 8 } else { 0 };
        let n = (bits / 8) as usize;
        let mut v: u64 = 0; let mut i = 0;
        while i < n { v |= (fetch!() as u64) << (8 * i); i += 1; }
        self.set(idx, bits, v);
      },
      0xc0 | 0xd0 => {
        let (_, rm, sub) = modrm_reg_only!();
        let count = if op == 0xc0 { fetch!() } else { 1 };
        let a = self.get8(rm, has_rex) as u64;
        let r = self.shift(sub, 8, a, count);
        self.set8(rm, has_rex, r as u8);
      },
      0xc1 | 0xd1 => {
        let (_, rm, sub) = modrm_reg_only!();
        let count = if op == 0xc1 { fetch!() } else { 1 };
        let a = self.get(rm, bits);
        let r = self.shift(sub, bits, a, count);
        self.set(rm, bits, r);
      },
      0xc3 => { self.exit = Exit::Ret; },
      0xf6 => {
        let (_, rm, sub) = modrm_reg_only!();
        match sub {
          0 => { let imm = fetch!() as u64; let a = self.get8(rm, has_rex) as u64; let _ = self.alu(4, 8, a, imm); },
          2 => { let a = self.get8(rm, has_rex); self.set8(rm, has_rex, !a); },
          _ => { self.exit = Exit::Fault(29); return Next::Done; },
        }
      },
      0xfe | 0xff => {
        let (_, rm, sub) = modrm_reg_only!();
        let w = if op == 0xfe { 8 } else { bits };
        match sub {
          0 | 1 => {
            let a = if w == 8 { self.get8(rm, has_rex) as u64 } else { self.get(rm, w) };
            let saved_cf = self.cf;
            let r = self.alu(if sub == 0 { 0 } else { 5 }, w, a, 1);
            self.cf = saved_cf;
            if w == 8 { self.set8(rm, has_rex, r as u8); } else { self.set(rm, w, r); }
          },
          2 if op == 0xff => {
            let target = self.r[rm];
            // return address push/pop is balanced inside the helper; model only the effect
            if !env.call(target, self) { self.fault = 30; }
          },
          4 if op == 0xff => { self.exit = Exit::JmpReg(rm); },
          _ => { self.exit = Exit::Fault(31); return Next::Done; },
        }
      },
      _ => { self.exit = Exit::Fault(99); return Next::Done; },
    }
    if self.exit == Exit::Running { self.pc = p; Next::Cont } else { Next::Done }
  }

  pub fn run<E: Env>(&mut self, code: &[u8], len: usize, env: &mut E, max_steps: u32) {
    let mut n = 0;
    while n < max_steps {
      match self.step(code, len, env) {
        Next::Cont => {},
        Next::Done => { return; },
        Next::Branch(c, t, f) => {
          // fork so that pc stays concrete on each path
          if c { self.pc = t; self.run(code, len, env, max_steps - n - 1); }
          else { self.pc = f; self.run(code, len, env, max_steps - n - 1); }
          return;
        },
      }
      n += 1;
    }
    self.fault = 77;
  }

  pub fn run_straight<E: Env>(&mut self, code: &[u8], len: usize, env: &mut E, max_steps: u32) {
    let mut n = 0;
    while n < max_steps {
      match self.step(code, len, env) {
        Next::Cont => {},
        Next::Done => { return; },
        Next::Branch(_, _, _) => { self.fault = 55; return; },
      }
      n += 1;
    }
    self.fault = 77;
  }

  /// System V: caller-saved registers and flags are dead after a call.
  pub fn clobber_caller_saved(&mut self) {
    self.r[RCX] = havoc_u64(); self.r[RDX] = havoc_u64(); self.r[RSI] = havoc_u64(); self.r[RDI] = havoc_u64();
    self.r[8] = havoc_u64(); self.r[9] = havoc_u64(); self.r[10] = havoc_u64(); self.r[11] = havoc_u64();
    self.r[RAX] = havoc_u64();
    self.havoc_flags();
  }
}
